#!/usr/bin/env python3
"""Regenerates the machine-written tables of DESIGN.md §10 (between the BEGIN/END markers):
 - §10.3 built-vs-planned table, from evidence/<id>.json (functions under contract, claimed/generated clauses)
 - §10.6 detection matrix, from seeded/detection.json and seeded/<id>/meta.json / patch.diff
Run after all checks and tools/selftest.sh have been run."""
import json, os, re, glob

V = "/verif"
NOT_BUILT = {
 "C01": "`LogWriter.Write/Switch`, `WAL.Switch`/`consumeRecordSerial` bodies (their behaviour enters the replay-order lemma as trusted descriptions), bounded stand-in for the serial consumer, `commitSnapshot`, full no-panic sweep of `FastUnmarshalMultiRows`",
 "C02": "`mergeRecRow`, `mergeRecordSchema`, dispatch of `MergeRecordLimitRows`, `InitSections`, descending searches",
 "C03": "marshal/unmarshal round-trip lemma of the intent log, `acquire/CompactDone`, `RenameTmpFiles`, content preservation of the merge itself",
 "C06": "nopanic sweep of the tag/field splitters, `AppendFieldToCol` lemma, bounded un-escaper, `IsValidNumber` against the grammar (the table is under contract, the automaton walk is not)",
 "C07": "layer 2 (trailer, chunk meta, record codec), bodies of the compressed schemes (tags, lengths and dispatch of all five column coders are built), decoder nopanic sweep",
 "C08": "other limit helpers + lemma `limit_chunking`, the reduce side of first/last/min/max (type parameter admits strings), boolean/string merges, `FillTransform` beyond the fast path, all other operators",
 "C09": "`Location` segment walk, `matchPreAgg`, pre-aggregation builders' folds, min/max/first/last folds of `AggregateData` (sum/count are built)",
 "C10": "`GenerateUUID`, `seriesByBinaryExpr`, `seriesByExprIterator`, key codecs",
 "C11": "`createShardGroup` cache, byte equality of write/read shard keys, bounded stand-in, `Data.ShardGroupsByTimeRange` ordering assumptions of other callers",
 "C12": "literal printers (`NumberLiteral` §8.9), `FormatDuration` lemma, plan/chunk codecs, `wf_paren`, the yacc side",
 "C13": "search entry points over `uint64set`, `DropSeries.Process`, `commitSnapshot` guard, `filterByDelTsidAndGenNewPart` part swap, delete-set attachment of index builders created after open",
 "C14": "`GetExpiredShards/Indexes` of metaclient, coordinator min-time",
 "C15": "element-wise equality of marshalled collections, `storeFSM.Snapshot/Restore`, `CreateShardGroup` map-order pick",
 "C16": "`wf(data)` as a single invariant, `createShards`, index groups, `CreateDatabase/RetentionPolicy`, `createVersionMeasurement` half-apply, global `Max*ID` frame scan",
 "C17": "slot codec, `seekEntry`, rotate/reopen on real files, bounded file stand-in",
 "C19": "the route table literal of `NewHandler` (which handler a pattern gets), `ServeHTTP` bypass prefixes (`/debug/*`), privilege setters (`SetPrivilege`, `SetAdminPrivilege`), flight service handlers",
 "C20": "`genRPNElementByOp`, `CheckInRange` RPN evaluation, binary search, min-max/set indexes, decomposition-completeness lemma",
}


def built_table():
    rows = ["| id | functions under contract (from the last evidence file) | claimed / generated clauses | planned in §5 but not built |", "|---|---|---|---|"]
    for f in sorted(glob.glob(V + "/evidence/C*.json")):
        e = json.load(open(f))
        c = e["coverage"]
        pid = e["property_id"]
        fns = [x.split("::")[-1] for x in c.get("functions_under_contract", [])]
        fns = [x for x in fns if not x.startswith("lemma.")] + [x for x in fns if x.startswith("lemma.")]
        gen = c.get("obligations", 0) + len(c.get("unclaimed", []))
        rows.append("| %s | %s | %d / %d | %s |" % (pid, ", ".join("`%s`" % x for x in fns), c.get("obligations", 0), gen, NOT_BUILT.get(pid, "")))
    return "\n".join(rows)


def first_sentence(s, n=230):
    s = re.sub(r"\s+", " ", s.strip())
    s = re.sub(r"^#+\s*", "", s)
    return (s[:n] + "…") if len(s) > n else s


def matrix():
    det = json.load(open(V + "/seeded/detection.json"))
    rows = ["| change | file / function touched | first failing obligation(s) of the property's quick check |", "|---|---|---|"]
    nd = 0
    for k in sorted(det, key=lambda x: (x.split("_")[0], int(x.split("_m")[1]))):
        d = V + "/seeded/" + k
        touched = ""
        if os.path.exists(d + "/patch.diff"):
            pd = open(d + "/patch.diff").read()
            files = re.findall(r"^\+\+\+ b/(\S+)", pd, re.M)
            funcs = re.findall(r"^@@[^@]*@@\s*func\s+(\([^)]*\)\s*)?(\w+)", pd, re.M)
            touched = ", ".join(files) + (" (" + ", ".join(sorted({f[1] for f in funcs})) + ")" if funcs else "")
        v = det[k]
        if v.startswith("detected"):
            nd += 1
            obl = v[len("detected:"):].strip()
            obl = re.sub(r"VIOLATION property=\S+ replay=\S+ obligation=\S*::", "", obl)
            obl = re.sub(r"reason=\"[^\"]*\"", "", obl)
            parts = [p.strip() for p in obl.split(";") if p.strip()]
            v = "; ".join("`%s`" % re.sub(r"\s*no-failing-input-found", "", p)[:110] for p in parts[:2])
        rows.append("| %s | %s | %s |" % (k, touched, v))
    na = sum(1 for v in det.values() if v.startswith("patch does not apply"))
    return "\n".join(rows) + "\n\n%d of %d confirmed changes are detected by the check of their property; %d no longer apply to the tree (the lines they change were rewritten by a later `fix:` commit - C06_m5 by the float-parsing repair #24, C09_m5 by the statistics-cursor repair #26 - they were detected while they applied and are kept for the record).\n" % (nd, len(det), na)


def replace(s, tag, body):
    b, e = "<!-- BEGIN %s -->" % tag, "<!-- END %s -->" % tag
    if b not in s:
        return s
    i, j = s.index(b) + len(b), s.index(e)
    return s[:i] + "\n" + body + "\n" + s[j:]


p = V + "/DESIGN.md"
s = open(p).read()
s = replace(s, "BUILT", built_table())
s = replace(s, "MATRIX", matrix())
open(p, "w").write(s)
print("DESIGN.md tables regenerated")
