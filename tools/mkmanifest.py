#!/usr/bin/env python3
# Regenerates /verif/MANIFEST.json from the table below. Keep the table current.
import json, os, subprocess
CLAIMED = {
 # id: (level text, level_note, design_ref)
 "C10": ("Proof (WP over go/ssa + SMT), for all paths, of the series-id allocation protocol (an id is created only after the lookup of the same key answered none without error; a found id is returned unchanged; a returned id has been tested against the deleted set on both the cache and the index path), of the row-folding predicate of the index merge (rows are folded only if date, prefix, measurement name and tag are equal) and of the reset of every per-use flag of a pooled tag filter.",
         "Trusted: uint64set membership, atomic load of the deleted set. Not decided: regular-expression predicates, AND/OR set algebra of the search, mergeset table contents and caches across reopen, id generator monotonicity.", "DESIGN.md §5 C10"),
 "C13": ("Proof (WP over go/ssa + SMT), for all paths, of the catalogue side of DROP: re-creating a measurement bumps the version kept for its name (physical name changes); DropMeasurement/DropDatabase delete only entries keyed by the given name (and only a marked measurement); the delete marks of database / policy / measurement are set only after every precondition check returned nil; plus the index side: a series id returned for a key has been tested against the deleted-id set on every path (new writes to a dropped series get a fresh id).",
         "Not decided: store-side file deletion, restart, every read path going through the filtered entry points; the check functions (CheckStreamExist*, checkMigrateConflict) have trusted frames.", "DESIGN.md §5 C13"),
 "C15": ("Proof (WP over go/ssa + SMT) of structural completeness (class D `carries`) of the catalogue snapshot path: for every field of every struct (enumerated from go/types, so later additions are covered) the clone holds an equal value (scalars, strings, struct values) or a non-aliased copy with equal length/nil-ness (slices, maps, pointers), for Data.Clone and the clone functions of DatabaseInfo, RetentionPolicyInfo, MeasurementInfo, ShardGroupInfo, ShardInfo, IndexGroupInfo, IndexInfo, UserInfo, ShardKeyInfo, MeasurementVer, ContinuousQueryInfo, NodeInfo.",
         "Frames of the clone helpers are trusted (they only write fresh objects); element-wise equality inside cloned collections, Marshal/Unmarshal round trip and determinism of the ~70 apply handlers are not decided; fields explicitly listed `shared`/`except` in the contract file are reported in the evidence.", "DESIGN.md §5 C15"),
 "C07": ("Proof (WP over go/ssa + SMT, bit-vector mode: Go's wraparound, shifts and byte truncation are exact) for all inputs of the leaf codecs in lib/numberenc (uint16/32/64, zig-zag int64, float64 bit pattern, bool: length, prefix preservation, big-endian value equation, decoder = inverse equation, zig-zag round-trip lemmas), and of the float column encoder's scheme selection in lib/compress (NaN/Inf anywhere forces the NaN-safe scheme, 'all same' means bit-identical, the same-value block elides only the all-zero bit pattern, the output is never touched after a Gorilla error).",
         "Trusted: unsafe byte<->float64 slice re-views (lengths only), snappy/zstd/simple8b/gorilla/MLF internals, sync.Pool. Not decided yet: integer/timestamp/string/bool column encoders, record and file codecs, WAL row codec.", "DESIGN.md §5 C07"),
 "C16": ("Proof (WP over go/ssa + SMT), for all catalogue states, of the listed contracts in meta: a new shard group is aligned to the policy's group duration, contains the timestamp, is clamped to MaxNanoTime+1 and gets a fresh id (counter +1); CreateShardGroup validates before it allocates and leaves every id counter unchanged on an error return; the database default policy exists after SetDefaultRetentionPolicy / DropRetentionPolicy; catalogue lookups (GetDatabase/RetentionPolicy) return live objects only; the shard-group sort order is the (effective end, start) strict order.",
         "Not decided: disjointness after ShardGroupDuration changes, createShards/CreateIndexGroup id ranges, uncontracted commands (~60 apply handlers), node/PtView maintenance. Truncate modelled by its defining property (largest multiple <= t).", "DESIGN.md §5 C16"),
 "C19": ("Proof (WP over go/ssa + SMT), for all requests/paths, that the authentication wrapper fails closed (the wrapped handler is reached with a non-nil, error-free user whenever authentication is required and an admin exists; bearer tokens are only verified against a non-empty shared secret; ParseCredentials returns only the two supported methods, which makes the no-return default branch unreachable), that AuthorizeDatabase is exactly per database, and that AuthorizeQuery checks every required privilege against the database the statement names and returns an error on any denial.",
         "Assumed: MetaClient.Authenticate returns a non-nil user with a nil error; JWT library; RequiredPrivileges table. Not decided: route table coverage (AddRoutes), per-handler authorizer calls, /debug endpoints.", "DESIGN.md §5 C19"),
 "C11": ("Proof (WP over go/ssa + SMT), for all inputs, of the shard routing kernels in meta: group time predicates (Contains/Overlaps/Deleted/Truncated), hash shard choice (ShardFor), range shard choice (DestShard: first containing shard, nil iff none), group lookup by timestamp (live, right engine, contains t; nil iff none), and completeness of ShardGroupsByTimeRange (every live overlapping group is returned), plus the lemma contains => overlaps.",
         "Not decided: byte equality of write-side and read-side shard keys, getConditionTags/TargetShards pruning (in progress), coordinator routing. Library models for time.Time (ns as mathematical Int).", "DESIGN.md §5 C11"),
 "C14": ("Proof (WP over go/ssa + SMT) of every expiry predicate for all clock readings/durations (shard.IsExpired, IsTierExpired, nilShardIsExpired == dur!=0 && end+dur<now), the guard obligations of ExpiredShards (an identifier is appended only after the expiry test of the same shard answered true), the retention service protocol (deletion pass only after both duration refreshes returned nil in the same tick; deletes/prunes only ids reported expired), and the catalogue side (ExpiredShardGroups reports only live groups with end+Duration<t; duration validation).",
         "Not decided: liveness (eventually removed), deletion on disk, DeleteShardOrIndex goroutine; interface method frames (Shard.IsExpired/GetIdent) assumed; time.Now modelled as an arbitrary monotone clock.", "DESIGN.md §5 C14"),
 "C20": ("Proof (WP over go/ssa + SMT) for all inputs/paths of the listed contracts on the real sparseindex code: three-valued mark algebra and its covering lemmas, range intersect/contain soundness against the abstract key order, and the accumulation over the hyper-rectangle decomposition (no examined box that may match is lost). Not an end-to-end proof of pruning soundness.",
         "Trusted: FieldRef.Less/Equals implement a total order (trusted_ensures), record.ColVal accessors are read-only, callBack is an arbitrary function value; bloom-filter skip indexes and binary/exclusion search loops not covered; sequential semantics.", "DESIGN.md §5 C20"),
}
NA = {
 "C04": "quantifier is schedules; the verifier is sequential (locks are ghost flags), no thread-aware logic can be built on go/ssa here",
 "C05": "quantifier is multi-process fault sequences over raft/network; no per-function contract expresses majority durability without a protocol-level invariant over external etcd-raft",
 "C18": "oracle is the external Prometheus engine up to floating-point rounding; contracts would be a hand transcription of upstream semantics over unsupported FP reasoning",
}
props=[json.loads(l)["id"] for l in open("/verif/properties.jsonl")]
commits=subprocess.run(["git","-C","/repo","log","--format=%h %s"],capture_output=True,text=True).stdout.splitlines()
hook_commits=[c.split()[0] for c in commits if c.split(" ",1)[1].startswith("verif:")]
m={"version":1,
 "setup_cmd":"cd /verif/gvc && GOFLAGS=-mod=mod GOPROXY=off go build -o /verif/bin/gvc . && cd /verif && for p in "+" ".join(sorted(CLAIMED))+"; do bin/gvc list -prop $p >/dev/null 2>&1 || true; done",
 "hooks":{"guard":"verif","enable":"-tags verif (adds comment-only zz_verif_contracts.go files; no executable code)","baseline_off_cmd":"cd /repo && GOFLAGS=-mod=mod GOPROXY=off go build ./... && go test -vet=off -count=1 -timeout 25m ./...","source_commits":hook_commits,"add_only":True},
 "engines":[{"name":"gvc","path":"/verif/gvc","serves_properties":sorted(CLAIMED),"kind_free_text":"contract-based deductive verifier: weakest-precondition VC generation over naive-form go/ssa of the real functions, contracts in //@ comment files behind build tag verif, obligations discharged by z3 4.8.12 / z3 5.1.0 / cvc5 1.0"}],
 "checks":[],
 "notes":"Claims are per contract clause x function (claims/<id>.json); a claimed clause that stops discharging, or whose code disappeared, is a VIOLATION. Known findings: known_findings.json.",
 "not_applicable":[]}
for p in props:
    if p in CLAIMED:
        t,n,d=CLAIMED[p]
        m["checks"].append({"property_id":p,"quick_cmd":f"bin/gvc check -prop {p} -tier quick","thorough_cmd":f"bin/gvc check -prop {p} -tier thorough",
          "evidence_file":f"/verif/evidence/{p}.json","replay_cmd_template":"bin/gvc replay -file {path}","engine":"gvc",
          "level_claimed":{"category":"proof","text":t,"design_ref":d},"level_note":n,
          "technique":"contract-based deductive verification: WP over go/ssa + SMT (z3/z3-new/cvc5), contracts in guarded comment files"})
    else:
        m["not_applicable"].append({"property_id":p,"reason":NA.get(p,"check not built yet in this session (planned: see DESIGN.md §5)")})
json.dump(m,open("/verif/MANIFEST.json","w"),indent=1)
print("checks:",len(m["checks"]),"n/a:",len(m["not_applicable"]))
