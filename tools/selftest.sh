#!/bin/bash
# Must-fail corpus: every confirmed seeded change must flip a named obligation of its property's check.
# Applies each patch to /repo, runs the quick check, reverts immediately. Requires a clean /repo work tree.
# Usage: tools/selftest.sh [id_mk ...]   -> writes /verif/seeded/detection.json
cd /verif || exit 2
if [ -n "$(git -C /repo status --porcelain --untracked-files=no)" ]; then echo "selftest: /repo has uncommitted changes to tracked files"; exit 2; fi
sel="$@"; [ -z "$sel" ] && sel=$(ls seeded | grep -E '^C[0-9]+_m[0-9]+$')
res="{"
miss=0
for s in $sel; do
  p=${s%%_*}
  if ! git -C /repo apply --check /verif/seeded/$s/patch.diff 2>/dev/null; then echo "$s: patch does not apply"; res="$res\"$s\": \"patch does not apply\","; continue; fi
  git -C /repo apply /verif/seeded/$s/patch.diff
  out=$(bin/gvc check -prop $p 2>&1); rc=$?
  git -C /repo checkout -- .
  obl=$(echo "$out" | grep -o 'obligation=[^ ]*' | head -3 | sed 's/obligation=//; s/.*:://' | tr '\n' ' ')
  if [ $rc -eq 1 ]; then echo "$s: DETECTED ($obl)"; res="$res\"$s\": \"detected: $obl\","; else echo "$s: MISSED (exit $rc)"; res="$res\"$s\": \"missed\","; miss=$((miss+1)); fi
done
echo "${res%,}}" > seeded/detection.json
echo "selftest: $miss missed"
