#!/bin/bash
# Must-fail corpus: every confirmed seeded change must flip a named obligation of its property's check.
# Applies each patch to /repo, runs the quick check, reverts immediately. Requires a clean /repo work tree.
# Usage: tools/selftest.sh [id_mk ...]   -> merges results into /verif/seeded/detection.json
cd /verif || exit 2
if [ -n "$(git -C /repo status --porcelain --untracked-files=no)" ]; then echo "selftest: /repo has uncommitted changes to tracked files"; exit 2; fi
sel="$@"; [ -z "$sel" ] && sel=$(ls seeded | grep -E '^C[0-9]+_m[0-9]+$')
miss=0
tmp=$(mktemp)
for s in $sel; do
  p=${s%%_*}
  if ! git -C /repo apply --check /verif/seeded/$s/patch.diff 2>/dev/null; then echo "$s: patch does not apply"; echo "$s|patch does not apply" >> $tmp; continue; fi
  git -C /repo apply /verif/seeded/$s/patch.diff
  # the evidence file must keep describing the UNCHANGED tree: save it around the run on the changed tree
  ev=$(mktemp); cp evidence/$p.json $ev 2>/dev/null
  out=$(bin/gvc check -prop $p 2>&1); rc=$?
  git -C /repo checkout -- .
  [ -s $ev ] && cp $ev evidence/$p.json; rm -f $ev
  obl=$(echo "$out" | grep '^VIOLATION' | head -3 | sed -E 's/.*obligation=([^ ]*) reason="[^"]*\(([a-z]+)\)[^"]*"(.*)$/\1 [\2]\3/; s/^[^ ]*:://' | tr '\n' ';')
  if [ $rc -eq 1 ]; then echo "$s: DETECTED ($obl)"; echo "$s|detected: $obl" >> $tmp; else echo "$s: MISSED (exit $rc)"; echo "$s|missed" >> $tmp; miss=$((miss+1)); fi
done
python3 - "$tmp" <<'E'
import json, sys, os
p = '/verif/seeded/detection.json'
d = json.load(open(p)) if os.path.exists(p) else {}
for l in open(sys.argv[1]):
    k, v = l.rstrip('\n').split('|', 1)
    d[k] = v
json.dump(dict(sorted(d.items())), open(p, 'w'), indent=1)
E
rm -f $tmp
echo "selftest: $miss missed"
