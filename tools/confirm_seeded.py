#!/usr/bin/env python3
"""Confirm seeded property-breaking changes in a scratch worktree of /repo (never in /repo itself):
for each /tmp/seed/<id>/m<k>:  patch applies, touched packages build, the demonstration FAILS with the
change and PASSES without it, the existing tests of the touched packages still pass with the change
(modulo tests that already fail on the unchanged tree). Confirmed ones are copied to /verif/seeded/<id>_m<k>/.
Usage: [SEED_DIR=/tmp/seed2 SEED_OFFSET=2] confirm_seeded.py [ids...]"""
import json, os, re, shutil, subprocess, sys, time

SEED = os.environ.get("SEED_DIR", "/tmp/seed")
OFFSET = int(os.environ.get("SEED_OFFSET", "0"))  # m1 of round 2 is stored as m3 with SEED_OFFSET=2
OUT = "/verif/seeded"
WT = "/tmp/wt-confirm"
ENV = dict(os.environ, GOFLAGS="-mod=mod", GOPROXY="off")
# tests that fail on the unchanged tree in this sandbox (not in the stable baseline)
BASELINE_FAIL = {"TestBuildDirTree", "TestEngine_OpenLimitShardError", "TestLazyInitError", "TestHandlerPromRead"}


def sh(cmd, cwd=WT, timeout=3000):
    p = subprocess.run(cmd, cwd=cwd, shell=True, env=ENV, capture_output=True, text=True, timeout=timeout)
    return p.returncode, p.stdout + p.stderr


def main():
    ids = sys.argv[1:]
    subprocess.run(f"git -C /repo worktree remove --force {WT}", shell=True, capture_output=True)
    subprocess.run(f"git -C /repo worktree add -q --detach {WT} HEAD", shell=True, check=True)
    results = []
    try:
        for pid in sorted(os.listdir(SEED)):
            if not re.match(r"C\d+$", pid) or (ids and pid not in ids):
                continue
            for m in sorted(os.listdir(os.path.join(SEED, pid))):
                d = os.path.join(SEED, pid, m)
                if not re.match(r"m\d+$", m) or not os.path.exists(os.path.join(d, "patch.diff")):
                    continue
                rec = {"property": pid, "mutant": m}
                patch = os.path.join(d, "patch.diff")
                if os.path.exists(os.path.join(d, "patch_rebased.diff")):
                    patch = os.path.join(d, "patch_rebased.diff")
                sh("git checkout -q -- . && git clean -fdq")
                rc, out = sh(f"git apply --check {patch}")
                if rc != 0:
                    rec["status"] = "patch does not apply on the current tree: " + out[:200]
                    results.append(rec)
                    continue
                dp = open(os.path.join(d, "demo_path.txt")).read()
                mpath = re.search(r"([\w/.\-]+_test\.go)", dp)
                mrun = re.search(r"-run\s+'?\"?([^'\"\s]+)", dp)
                mpkg = re.search(r"(\./[\w/.\-]+/)\s*$", dp.strip().splitlines()[[i for i, l in enumerate(dp.strip().splitlines()) if "go test" in l][-1]] if any("go test" in l for l in dp.splitlines()) else "")
                if not (mpath and mrun):
                    rec["status"] = "cannot parse demo_path.txt"
                    results.append(rec)
                    continue
                test_path = mpath.group(1)
                pkg = "./" + os.path.dirname(test_path) + "/"
                run = mrun.group(1)
                shutil.copy(os.path.join(d, "demo_test.go"), os.path.join(WT, test_path))
                t0 = time.time()
                # without the change: demo passes
                rc0, out0 = sh(f"go test -vet=off -count=1 -timeout 20m -run '{run}' {pkg}")
                # with the change
                sh(f"git apply {patch}")
                touched = sorted({"./" + os.path.dirname(l[6:].strip()) + "/" for l in open(patch) if l.startswith("+++ b/")})
                rcb, outb = sh("go build " + " ".join(touched))
                rc1, out1 = sh(f"go test -vet=off -count=1 -timeout 20m -run '{run}' {pkg}")
                # existing tests of touched packages (demo excluded)
                os.remove(os.path.join(WT, test_path))
                fails = []
                for tp in touched:
                    rct, outt = sh(f"go test -vet=off -count=1 -timeout 25m -skip '^(" + "|".join(sorted(BASELINE_FAIL)) + ")$' {tp}", timeout=2400)
                    for l in outt.splitlines():
                        mm = re.match(r"--- FAIL: (\w+)", l)
                        if mm and mm.group(1) not in BASELINE_FAIL:
                            fails.append(tp + ":" + mm.group(1))
                    if rct != 0 and not re.search(r"--- FAIL", outt) and "panic" in outt:
                        if not any(b in outt for b in BASELINE_FAIL):
                            fails.append(tp + ":panic")
                rec.update(demo_without=("PASS" if rc0 == 0 else "FAIL"), demo_with=("PASS" if rc1 == 0 else "FAIL"),
                           build=("ok" if rcb == 0 else "FAILED"), existing_test_failures=fails, seconds=round(time.time() - t0),
                           touched=touched, demo=test_path, run=run)
                ok = rc0 == 0 and rc1 != 0 and rcb == 0 and not fails
                rec["status"] = "confirmed" if ok else "NOT confirmed"
                if ok:
                    dst = os.path.join(OUT, f"{pid}_m{int(m[1:]) + OFFSET}")
                    os.makedirs(dst, exist_ok=True)
                    shutil.copy(patch, os.path.join(dst, "patch.diff"))
                    shutil.copy(os.path.join(d, "demo_test.go"), os.path.join(dst, "demo_test.go.txt"))
                    notes = open(os.path.join(d, "notes.md")).read() if os.path.exists(os.path.join(d, "notes.md")) else ""
                    json.dump({"property": pid, "breaks": notes[:1500], "needs_to_manifest": "see notes", "demo_path": test_path,
                               "demo_cmd": f"go test -vet=off -count=1 -run '{run}' {pkg}",
                               "confirmed": {"patch_applies_on": subprocess.run('git -C /repo log --format=%h -1', shell=True, capture_output=True, text=True).stdout.strip(),
                                             "demo_without_change": "PASS", "demo_with_change": "FAIL", "touched_packages_tests_with_change": "pass (baseline failures excluded: " + ", ".join(sorted(BASELINE_FAIL)) + ")",
                                             "ran": [f"go test -run '{run}' {pkg} (both ways)"] + [f"go test {t}" for t in touched]}},
                              open(os.path.join(dst, "meta.json"), "w"), indent=1)
                    if notes:
                        open(os.path.join(dst, "notes.md"), "w").write(notes)
                results.append(rec)
                print(json.dumps(rec), flush=True)
    finally:
        subprocess.run(f"git -C /repo worktree remove --force {WT}", shell=True, capture_output=True)
    logp = "/verif/seeded/confirmation_log.json"
    prev = json.load(open(logp)) if os.path.exists(logp) else []
    for r in results:
        r["stored_as"] = f"{r['property']}_m{int(r['mutant'][1:]) + OFFSET}"
        r["seed_dir"] = SEED
    keep = [x for x in prev if x.get("stored_as", f"{x['property']}_{x['mutant']}") not in {r["stored_as"] for r in results}]
    json.dump(keep + results, open(logp, "w"), indent=1)


if __name__ == "__main__":
    os.makedirs(OUT, exist_ok=True)
    main()
