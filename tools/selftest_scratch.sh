#!/bin/bash
# Must-fail corpus on a SCRATCH CLONE of /repo (HEAD), so that /repo can be edited meanwhile and no evidence file is
# touched: gvc is pointed at the clone (GVC_REPO) and writes evidence/replay files to a scratch directory (GVC_OUT).
# Usage: tools/selftest_scratch.sh [id_mk ...]  -> merges results into /verif/seeded/detection.json; removes the clone.
cd /verif || exit 2
S=${SELFTEST_DIR:-/tmp/gvc-selftest}
rm -rf $S; mkdir -p $S/out
git clone -q /repo $S/repo || exit 2
export GVC_REPO=$S/repo GVC_OUT=$S/out GVC_NO_REPLAY=1
sel="$@"; [ -z "$sel" ] && sel=$(ls seeded | grep -E '^C[0-9]+_m[0-9]+$')
miss=0
tmp=$(mktemp)
for s in $sel; do
  p=${s%%_*}
  if ! git -C $S/repo apply --check /verif/seeded/$s/patch.diff 2>/dev/null; then echo "$s: patch does not apply"; echo "$s|patch does not apply" >> $tmp; continue; fi
  git -C $S/repo apply /verif/seeded/$s/patch.diff
  out=$(bin/gvc check -prop $p 2>&1); rc=$?
  git -C $S/repo checkout -- .
  obl=$(echo "$out" | grep '^VIOLATION' | head -3 | sed -E 's/.*obligation=([^ ]*) reason="[^"]*\(([a-z]+)\)[^"]*"(.*)$/\1 [\2]\3/; s/^[^ ]*:://' | tr '\n' ';')
  if [ $rc -eq 1 ]; then echo "$s: DETECTED ($obl)"; echo "$s|detected: $obl" >> $tmp; else echo "$s: MISSED (exit $rc)"; echo "$s|missed" >> $tmp; miss=$((miss+1)); fi
done
python3 - "$tmp" <<'PY'
import json, sys, os
p = '/verif/seeded/detection.json'
d = json.load(open(p)) if os.path.exists(p) else {}
for l in open(sys.argv[1]):
    k, v = l.rstrip('\n').split('|', 1)
    d[k] = v
json.dump(dict(sorted(d.items())), open(p, 'w'), indent=1)
PY
rm -f $tmp; rm -rf $S
echo "selftest: $miss missed"
