package main

// Replay of solver counterexamples against the real code: the model's inputs are rebuilt as Go
// values, the real function is called from an in-package test injected with `go test -overlay`
// (nothing is written into /repo), and its observable results are compared with the results the
// model predicts. Agreement confirms that the real code exhibits the counterexample.

import (
	"bytes"
	"context"
	"encoding/json"
	"fmt"
	"go/types"
	"os"
	"os/exec"
	"path/filepath"
	"sort"
	"strings"
	"time"
)

type ReplayOutcome struct {
	Attempted bool   `json:"attempted"`
	Confirmed bool   `json:"confirmed"`
	Detail    string `json:"detail"`
	TestFile  string `json:"test_file,omitempty"`
	Output    string `json:"output,omitempty"`
}

type inputRead struct {
	Path string
	Term string
	Type types.Type
}

type retRecord struct {
	Reach string
	Vals  []Val
}

var currentGens []*Gen

// parseSExpr: minimal s-expression reader for model values.
type sx struct {
	atom string
	list []*sx
}

func parseSX(s string) *sx {
	toks := strings.Fields(strings.NewReplacer("(", " ( ", ")", " ) ").Replace(s))
	pos := 0
	var rd func() *sx
	rd = func() *sx {
		if pos >= len(toks) {
			return &sx{atom: ""}
		}
		t := toks[pos]
		pos++
		if t == "(" {
			n := &sx{}
			for pos < len(toks) && toks[pos] != ")" {
				n.list = append(n.list, rd())
			}
			pos++
			return n
		}
		return &sx{atom: t}
	}
	return rd()
}

func (n *sx) intVal() (string, bool) {
	if n.atom != "" {
		if n.atom[0] >= '0' && n.atom[0] <= '9' {
			return n.atom, true
		}
		if strings.HasPrefix(n.atom, "#x") {
			var v uint64
			fmt.Sscanf(n.atom[2:], "%x", &v)
			return fmt.Sprint(v), true
		}
		return "", false
	}
	if len(n.list) == 2 && n.list[0].atom == "-" {
		if v, ok := n.list[1].intVal(); ok {
			return "-" + v, true
		}
	}
	if len(n.list) == 3 && n.list[0].atom == "_" && strings.HasPrefix(n.list[1].atom, "bv") {
		return n.list[1].atom[2:], true
	}
	return "", false
}

type replayBuilder struct {
	g       *Gen
	pkg     *types.Package
	imports map[string]string // path -> name
	lines   []string
	objs    map[string]string // model pointer value -> Go variable
	strs    map[string]string
	nobj    int
	usesNow bool
	nowTerm string
	bad     string
}

func (b *replayBuilder) qual(p *types.Package) string {
	if p == b.pkg {
		return ""
	}
	b.imports[p.Path()] = p.Name()
	return p.Name()
}

func (b *replayBuilder) typeStr(t types.Type) string { return types.TypeString(t, b.qual) }

// goValue renders a model value of Go type t as a Go expression.
func (b *replayBuilder) goValue(mv string, t types.Type) (string, bool) {
	n := parseSX(mv)
	if isTimeType(t) {
		v, ok := n.intVal()
		if !ok {
			return "", false
		}
		b.imports["time"] = "time"
		b.usesNow = true
		return fmt.Sprintf("gvcTime(%s, gvcOff)", v), true
	}
	switch u := t.Underlying().(type) {
	case *types.Basic:
		switch {
		case u.Info()&types.IsBoolean != 0:
			return n.atom, n.atom == "true" || n.atom == "false"
		case u.Info()&types.IsInteger != 0:
			v, ok := n.intVal()
			if !ok {
				return "", false
			}
			return fmt.Sprintf("%s(%s)", b.typeStr(t), v), true
		case u.Info()&types.IsString != 0:
			s, ok := b.strs[mv]
			if !ok {
				s = fmt.Sprintf("gvc-s%d", len(b.strs))
				b.strs[mv] = s
			}
			return fmt.Sprintf("%s(%q)", b.typeStr(t), s), true
		}
	case *types.Pointer:
		if n.atom == "pnull" {
			return "nil", true
		}
		if _, isStruct := u.Elem().Underlying().(*types.Struct); !isStruct {
			return "", false
		}
		if v, ok := b.objs[mv+"|"+b.typeStr(t)]; ok {
			return v, true
		}
		b.nobj++
		v := fmt.Sprintf("gvcObj%d", b.nobj)
		b.objs[mv+"|"+b.typeStr(t)] = v
		b.lines = append([]string{fmt.Sprintf("%s := new(%s)", v, b.typeStr(u.Elem()))}, b.lines...)
		return v, true
	case *types.Struct:
		if len(n.list) == u.NumFields()+1 {
			var fs []string
			for i := 0; i < u.NumFields(); i++ {
				fv, ok := b.goValue(sxString(n.list[i+1]), u.Field(i).Type())
				if !ok {
					return "", false
				}
				fs = append(fs, u.Field(i).Name()+": "+fv)
			}
			return b.typeStr(t) + "{" + strings.Join(fs, ", ") + "}", true
		}
	case *types.Slice:
		// only nil / empty slices can be rebuilt without the element map
		if len(n.list) == 5 && n.list[0].atom == "mk-slice" {
			if l, ok := n.list[3].intVal(); ok && l == "0" {
				return "nil", true
			}
		}
	case *types.Interface:
		if len(n.list) == 3 && n.list[1].atom == "0" {
			return "nil", true
		}
	case *types.Map:
		if n.atom == "0" {
			return "nil", true
		}
	}
	return "", false
}

func sxString(n *sx) string {
	if n.atom != "" || len(n.list) == 0 {
		return n.atom
	}
	var ps []string
	for _, c := range n.list {
		ps = append(ps, sxString(c))
	}
	return "(" + strings.Join(ps, " ") + ")"
}

func tryReplay(w *World, prop, key string, r *Result) *ReplayOutcome {
	out := &ReplayOutcome{}
	if os.Getenv("GVC_NO_REPLAY") != "" {
		// only the must-fail corpus on a scratch clone sets this: there the question is whether a clause fails, and
		// compiling the package's test binary for every refuted clause of every change dominates the run time
		out.Detail = "replay skipped (GVC_NO_REPLAY)"
		return out
	}
	var g *Gen
	for _, x := range currentGens {
		if x.key == r.O.Func {
			g = x
		}
	}
	if g == nil || g.fn == nil || r.Model == nil {
		out.Detail = "no function/model to replay"
		return out
	}
	if g.fn.Parent() != nil {
		out.Detail = "closure: inputs (captured variables) cannot be rebuilt automatically"
		return out
	}
	b := &replayBuilder{g: g, pkg: g.fn.Pkg.Pkg, imports: map[string]string{"testing": "testing", "fmt": "fmt"}, objs: map[string]string{}, strs: map[string]string{}}
	// strings / slices longer than what the model reports element-wise: ask the solver for a counterexample with
	// short inputs (same query plus length bounds); if there is none the original model is kept
	if small := smallInputModel(g, r); small != nil {
		r.Model = small
		out.Detail = "counterexample re-solved with short inputs; "
	}
	// parameters
	var args []string
	recv := ""
	for i, p := range g.fn.Params {
		mv, ok := r.Model[p.Name()]
		if !ok {
			out.Detail = "model has no value for parameter " + p.Name()
			return out
		}
		gv, ok := b.seqFromModel(p.Name(), p.Type(), r.Model)
		if !ok {
			gv, ok = b.goValue(mv, p.Type())
		}
		if !ok {
			out.Detail = fmt.Sprintf("parameter %s of type %s cannot be rebuilt from the model value %s", p.Name(), p.Type(), truncate(mv, 80))
			return out
		}
		b.lines = append(b.lines, fmt.Sprintf("var %s %s = %s", "p_"+p.Name(), b.typeStr(p.Type()), gv))
		if i == 0 && g.fn.Signature.Recv() != nil {
			recv = "p_" + p.Name()
		} else {
			args = append(args, "p_"+p.Name())
		}
	}
	// heap reads reachable from parameters, shortest paths first
	reads := append([]inputRead{}, g.inputReads...)
	sort.SliceStable(reads, func(i, j int) bool { return strings.Count(reads[i].Path, ".") < strings.Count(reads[j].Path, ".") })
	done := map[string]bool{}
	for _, rd := range reads {
		if done[rd.Path] {
			continue
		}
		done[rd.Path] = true
		mv, ok := r.Model["@"+rd.Path]
		if !ok {
			continue
		}
		root := rd.Path
		if i := strings.IndexAny(root, ".["); i >= 0 {
			root = root[:i]
		}
		isParam := false
		for _, p := range g.fn.Params {
			if p.Name() == root {
				isParam = true
			}
		}
		if !isParam || strings.Contains(rd.Path, "[") {
			continue
		}
		gv, ok := b.goValue(mv, rd.Type)
		if !ok {
			continue // leave the zero value; the comparison of results decides
		}
		// guard: assigning through a nil pointer would panic in the harness itself
		prefix := "p_" + rd.Path[:strings.LastIndex(rd.Path, ".")]
		b.lines = append(b.lines, fmt.Sprintf("if gvcNonNil(%s) { %s = %s }", prefix, "p_"+rd.Path, gv))
	}
	// the call
	sig := g.fn.Signature
	var rets []string
	for i := 0; i < sig.Results().Len(); i++ {
		rets = append(rets, fmt.Sprintf("r%d", i))
	}
	call := g.fn.Name() + "(" + strings.Join(args, ", ") + ")"
	if recv != "" {
		call = recv + "." + call
	}
	if len(rets) > 0 {
		b.lines = append(b.lines, strings.Join(rets, ", ")+" := "+call)
	} else {
		b.lines = append(b.lines, call)
	}
	for i := range rets {
		b.lines = append(b.lines, fmt.Sprintf("fmt.Printf(\"GVC-REPLAY r%d=%%s\\n\", gvcShow(r%d))", i, i))
	}
	// expected results from the model: the return whose reach condition is true
	var expect []string
	for ri, rr := range g.rets {
		if r.Model[fmt.Sprintf("@reach%d", ri)] != "true" {
			continue
		}
		for vi, v := range rr.Vals {
			mv := r.Model[fmt.Sprintf("@ret%d_%d", ri, vi)]
			expect = append(expect, showModel(mv, v))
		}
		break
	}
	nowMV := r.Model["time.Now()"]
	var src bytes.Buffer
	fmt.Fprintf(&src, "package %s\n\nimport (\n", b.pkg.Name())
	b.imports["time"] = "time"
	b.imports["reflect"] = "reflect"
	for _, p := range sortedKeys(b.imports) {
		if b.imports[p] == filepath.Base(p) || !strings.Contains(p, "/") {
			fmt.Fprintf(&src, "\t%q\n", p)
		} else {
			fmt.Fprintf(&src, "\t%s %q\n", b.imports[p], p)
		}
	}
	fmt.Fprintf(&src, ")\n\nfunc gvcTime(ns int64, off int64) time.Time { return time.Unix(0, ns+off) }\n")
	fmt.Fprintf(&src, "func gvcNonNil(x interface{}) bool { v := reflect.ValueOf(x); return !(v.Kind() == reflect.Ptr && v.IsNil()) }\n")
	fmt.Fprintf(&src, `func gvcShow(x interface{}) string {
	if x == nil {
		return "nil"
	}
	v := reflect.ValueOf(x)
	switch v.Kind() {
	case reflect.Ptr, reflect.Map, reflect.Slice, reflect.Interface, reflect.Func:
		if v.IsNil() {
			return "nil"
		}
		return "nonnil"
	case reflect.Struct:
		if t, ok := x.(time.Time); ok {
			return fmt.Sprint(t.UnixNano())
		}
		return fmt.Sprintf("%%+v", x)
	}
	return fmt.Sprint(x)
}
`)
	fmt.Fprintf(&src, "\nfunc TestGvcReplay(t *testing.T) {\n\tdefer func() {\n\t\tif e := recover(); e != nil {\n\t\t\tfmt.Printf(\"GVC-REPLAY panic=%%v\\n\", e)\n\t\t}\n\t}()\n")
	if nowMV != "" {
		if v, ok := parseSX(nowMV).intVal(); ok {
			fmt.Fprintf(&src, "\tgvcOff := time.Now().UnixNano() - (%s)\n\t_ = gvcOff\n", v)
		} else {
			fmt.Fprintf(&src, "\tgvcOff := int64(0)\n\t_ = gvcOff\n")
		}
	} else {
		fmt.Fprintf(&src, "\tgvcOff := int64(0)\n\t_ = gvcOff\n")
	}
	for _, l := range b.lines {
		fmt.Fprintf(&src, "\t%s\n", l)
	}
	fmt.Fprintf(&src, "}\n")

	dir, err := os.MkdirTemp("", "gvc-replay-")
	if err != nil {
		out.Detail = err.Error()
		return out
	}
	defer os.RemoveAll(dir)
	testSrc := filepath.Join(dir, "zz_gvc_replay_test.go")
	os.WriteFile(testSrc, src.Bytes(), 0o644)
	// place it next to the function's source file
	pos := w.fset.Position(g.fn.Pos())
	target := filepath.Join(filepath.Dir(pos.Filename), "zz_gvc_replay_test.go")
	ov, _ := json.Marshal(map[string]any{"Replace": map[string]string{target: testSrc}})
	ovFile := filepath.Join(dir, "overlay.json")
	os.WriteFile(ovFile, ov, 0o644)
	rel, _ := filepath.Rel(repoRoot, filepath.Dir(pos.Filename))
	cmd := exec.Command("go", "test", "-overlay", ovFile, "-vet=off", "-count=1", "-timeout", "120s", "-v", "-run", "^TestGvcReplay$", "./"+rel+"/")
	cmd.Dir = repoRoot
	cmd.Env = append(os.Environ(), "GOFLAGS=-mod=mod", "GOPROXY=off")
	var buf bytes.Buffer
	cmd.Stdout, cmd.Stderr = &buf, &buf
	t0 := time.Now()
	before := repoUntracked()
	cmd.Run()
	removeNewUntracked(before)
	out.Attempted = true
	out.TestFile = src.String()
	res := buf.String()
	var got []string
	panicked := ""
	for _, l := range strings.Split(res, "\n") {
		if strings.HasPrefix(l, "GVC-REPLAY r") {
			got = append(got, l[strings.Index(l, "=")+1:])
		}
		if strings.HasPrefix(l, "GVC-REPLAY panic=") {
			panicked = l
		}
	}
	out.Output = truncate(res, 3000)
	isSafety := r.O.Implicit || strings.HasPrefix(r.O.Clause, "nopanic")
	switch {
	case panicked != "":
		out.Confirmed = isSafety
		out.Detail = fmt.Sprintf("real code panicked on the model's inputs (%s) after %.1fs", panicked, time.Since(t0).Seconds())
	case len(got) == 0 && sig.Results().Len() > 0:
		out.Detail = "replay test did not run to completion (build error or unsupported input shape)"
	case isSafety:
		out.Detail = "real code did not panic on the model's inputs"
	default:
		match := len(expect) == len(got)
		for i := range got {
			if match && expect[i] != "?" && expect[i] != got[i] {
				match = false
			}
		}
		anyKnown := false
		for _, e := range expect {
			if e != "?" {
				anyKnown = true
			}
		}
		if match && (anyKnown || len(expect) == 0) {
			out.Confirmed = true
			out.Detail = fmt.Sprintf("real code returned %v on the model's inputs, exactly the results of the counterexample (which violate the clause)", got)
		} else {
			out.Detail = fmt.Sprintf("real code returned %v, model predicted %v: counterexample not reproduced (inputs may not be fully rebuildable)", got, expect)
		}
	}
	return out
}

// showModel renders a model value the way gvcShow prints the corresponding Go value.
func showModel(mv string, v Val) string {
	if mv == "" {
		return "?"
	}
	n := parseSX(mv)
	if v.G != nil && isTimeType(v.G) {
		return "?" // shifted by the clock offset
	}
	switch v.S.K {
	case KBool:
		return n.atom
	case KInt, KBV:
		if s, ok := n.intVal(); ok {
			return s
		}
	case KPtr:
		if n.atom == "pnull" {
			return "nil"
		}
		return "nonnil"
	case KIface:
		if len(n.list) == 3 && n.list[1].atom == "0" && n.list[2].atom == "0" {
			return "nil"
		}
		return "nonnil"
	case KSlice:
		if len(n.list) == 5 {
			if a, ok := n.list[1].intVal(); ok && a == "0" {
				return "nil"
			}
			return "nonnil"
		}
	case KStruct:
		if v.G != nil {
			if st, ok := v.G.Underlying().(*types.Struct); ok && len(n.list) == st.NumFields()+1 {
				var fs []string
				for i := 0; i < st.NumFields(); i++ {
					fs = append(fs, st.Field(i).Name()+":"+sxString(n.list[i+1]))
				}
				return "{" + strings.Join(fs, " ") + "}"
			}
		}
	}
	return "?"
}

func runReplay(file string) int {
	data, err := os.ReadFile(file)
	if err != nil {
		fmt.Println("gvc replay:", err)
		return 2
	}
	var rf ReplayFile
	if err := json.Unmarshal(data, &rf); err != nil {
		fmt.Println("gvc replay:", err)
		return 2
	}
	fmt.Printf("obligation: %s\nstatus: %s\nposition: %s\nmodel: %v\n", rf.Obligation, rf.Status, rf.Pos, rf.Model)
	if rf.Replay == nil || rf.Replay.TestFile == "" {
		fmt.Println("no replay test stored for this violation (solver output below)")
		fmt.Println(rf.SolverOut)
		return 1
	}
	// re-run the stored test against the current tree
	dir, _ := os.MkdirTemp("", "gvc-replay-")
	defer os.RemoveAll(dir)
	src := filepath.Join(dir, "zz_gvc_replay_test.go")
	os.WriteFile(src, []byte(rf.Replay.TestFile), 0o644)
	pkgDir := filepath.Join(repoRoot, filepath.Dir(strings.SplitN(rf.Pos, ":", 2)[0]))
	ov, _ := json.Marshal(map[string]any{"Replace": map[string]string{filepath.Join(pkgDir, "zz_gvc_replay_test.go"): src}})
	ovFile := filepath.Join(dir, "overlay.json")
	os.WriteFile(ovFile, ov, 0o644)
	rel, _ := filepath.Rel(repoRoot, pkgDir)
	cmd := exec.Command("go", "test", "-overlay", ovFile, "-vet=off", "-count=1", "-timeout", "120s", "-v", "-run", "^TestGvcReplay$", "./"+rel+"/")
	cmd.Dir = repoRoot
	cmd.Env = append(os.Environ(), "GOFLAGS=-mod=mod", "GOPROXY=off")
	cmd.Stdout, cmd.Stderr = os.Stdout, os.Stderr
	before := repoUntracked()
	cmd.Run()
	removeNewUntracked(before)
	return 0
}

// Test binaries of some packages leave log files and data directories next to their sources. A replay must not
// leave anything in /repo: remember the untracked paths before the run and remove the ones that appeared.
func repoUntracked() map[string]bool {
	out, err := exec.Command("git", "-C", repoRoot, "ls-files", "--others", "--exclude-standard", "--directory").Output()
	m := map[string]bool{}
	if err != nil {
		return nil
	}
	for _, l := range strings.Split(string(out), "\n") {
		if l != "" {
			m[l] = true
		}
	}
	return m
}

func removeNewUntracked(before map[string]bool) {
	if before == nil {
		return
	}
	for p := range repoUntracked() {
		if !before[p] && !strings.Contains(p, "..") {
			os.RemoveAll(filepath.Join(repoRoot, p))
		}
	}
}

func runSelftest(prop string) int {
	fmt.Println("selftest: see /verif/tools/selftest.sh")
	return 2
}


// seqFromModel rebuilds a string / slice-of-basic parameter from the element-wise model values registered by
// addInputModelVars (at most replayElems elements).
func (b *replayBuilder) seqFromModel(name string, t types.Type, model map[string]string) (string, bool) {
	ls, ok := model[name+"#len"]
	if !ok {
		return "", false
	}
	lv, ok := parseSX(ls).intVal()
	if !ok {
		return "", false
	}
	var n int
	if _, err := fmt.Sscanf(lv, "%d", &n); err != nil || n < 0 || n > replayElems {
		return "", false
	}
	elem := func(k int, et types.Type) (string, bool) {
		mv, ok := model[fmt.Sprintf("%s#%d", name, k)]
		if !ok {
			return "", false
		}
		x := parseSX(mv)
		if eb, isB := et.Underlying().(*types.Basic); isB && eb.Info()&types.IsBoolean != 0 {
			return x.atom, x.atom == "true" || x.atom == "false"
		}
		if eb, isB := et.Underlying().(*types.Basic); isB && eb.Info()&types.IsFloat != 0 {
			return "", false
		}
		return x.intVal()
	}
	switch u := t.Underlying().(type) {
	case *types.Basic:
		if u.Info()&types.IsString == 0 {
			return "", false
		}
		var bs []string
		for k := 0; k < n; k++ {
			v, ok := elem(k, types.Typ[types.Uint8])
			if !ok {
				return "", false
			}
			bs = append(bs, v)
		}
		return fmt.Sprintf("%s([]byte{%s})", b.typeStr(t), strings.Join(bs, ", ")), true
	case *types.Slice:
		if n == 0 {
			return "", false // nil vs empty is decided by the slice header value
		}
		var es []string
		for k := 0; k < n; k++ {
			v, ok := elem(k, u.Elem())
			if !ok {
				return "", false
			}
			es = append(es, v)
		}
		return fmt.Sprintf("%s{%s}", b.typeStr(t), strings.Join(es, ", ")), true
	}
	return "", false
}

// smallInputModel re-solves the refuted query with every string / basic-slice parameter bounded to replayElems
// elements; nil if no parameter is too long or no such counterexample is found quickly.
func smallInputModel(g *Gen, r *Result) map[string]string {
	var extra []string
	tooLong := false
	for _, p := range g.fn.Params {
		v, ok := g.params[p.Name()]
		if !ok || v.S == nil {
			continue
		}
		var lenTerm string
		switch v.S.K {
		case KStr:
			lenTerm = fmt.Sprintf("(gstr.len %s)", v.T)
		case KSlice:
			lenTerm = fmt.Sprintf("(sl.len %s)", v.T)
		default:
			continue
		}
		if _, has := r.Model[p.Name()+"#len"]; !has {
			continue
		}
		extra = append(extra, fmt.Sprintf("(assert %s)", g.idxLe(lenTerm, g.idxLit(replayElems))))
		if lv, ok := parseSX(r.Model[p.Name()+"#len"]).intVal(); ok {
			var n int
			if _, err := fmt.Sscanf(lv, "%d", &n); err != nil || n > replayElems {
				tooLong = true
			}
		}
	}
	if !tooLong || len(extra) == 0 || r.Query == "" {
		return nil
	}
	i := strings.LastIndex(r.Query, "(check-sat)")
	if i < 0 {
		return nil
	}
	text := r.Query[:i] + strings.Join(extra, "\n") + "\n" + r.Query[i:]
	dir, err := os.MkdirTemp("", "gvc-small-")
	if err != nil {
		return nil
	}
	defer os.RemoveAll(dir)
	for _, s := range solvers[:2] {
		st, out, _ := runSolver(context.Background(), s, text, dir, "small", 10)
		if st == "sat" {
			return parseModel(out, g.modelVars)
		}
		if st == "unsat" {
			return nil
		}
	}
	return nil
}
