package main

import "fmt"

type ReplayOutcome struct {
	Attempted bool   `json:"attempted"`
	Confirmed bool   `json:"confirmed"`
	Detail    string `json:"detail"`
	TestFile  string `json:"test_file,omitempty"`
	Output    string `json:"output,omitempty"`
}

func tryReplay(w *World, prop, key string, r *Result) *ReplayOutcome {
	return &ReplayOutcome{Attempted: false, Detail: "no replay generator for this obligation"}
}

func runReplay(file string) int {
	fmt.Println("replay not implemented yet:", file)
	return 2
}

func runSelftest(prop string) int {
	fmt.Println("selftest not implemented yet")
	return 2
}
