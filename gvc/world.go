package main

import (
	"fmt"
	"go/ast"
	"go/token"
	"go/types"
	"os"
	"path/filepath"
	"sort"
	"strings"

	"golang.org/x/tools/go/packages"
	"golang.org/x/tools/go/ssa"
	"golang.org/x/tools/go/ssa/ssautil"
)

// repoRoot is /repo for every registered check; tools/selftest.sh may point it at a scratch clone (GVC_REPO) so that
// the must-fail corpus can run while /repo itself is being edited.
var repoRoot = func() string {
	if v := os.Getenv("GVC_REPO"); v != "" {
		return v
	}
	return "/repo"
}()

const modPath = "github.com/openGemini/openGemini"

type World struct {
	fset         *token.FileSet
	pkgs         []*packages.Package
	prog         *ssa.Program
	spkgs        map[string]*ssa.Package
	specs        map[string]*FuncSpec // pkgpath::relname
	extern       map[string]*FuncSpec // full ssa name
	ifaceSpecs   map[string]*FuncSpec // pkgpath::Iface.Method
	specFuncs    map[string]*SpecFunc
	specFuncPkg  map[string]*types.Package
	lemmas       []*Lemma
	axioms       []axiomIn
	specImports  map[string]map[string]string // contract package path -> alias -> import path
	usedLib      map[string]bool
	refuted      map[string]bool
	lemmaPkg     *types.Package
	allSpecs     []*FuncSpec
	typesPkgs    map[string]*types.Package
	pureLib      map[string]bool
	specFiles    []string
	globalGhosts map[string]string // name -> type
	kfExcept     map[string]Expr
}

func (w *World) pos(p token.Pos) string {
	if !p.IsValid() {
		return ""
	}
	ps := w.fset.Position(p)
	f := strings.TrimPrefix(ps.Filename, repoRoot+"/")
	return fmt.Sprintf("%s:%d", f, ps.Line)
}

// findContractFiles: all zz_verif_contracts*.go under /repo.
func findContractFiles() []string {
	var out []string
	filepath.Walk(repoRoot, func(p string, info os.FileInfo, err error) error {
		if err != nil {
			return nil
		}
		if info.IsDir() {
			n := info.Name()
			if n == ".git" || n == "node_modules" || n == "vendor" {
				return filepath.SkipDir
			}
			return nil
		}
		if strings.HasPrefix(info.Name(), "zz_verif_contracts") && strings.HasSuffix(info.Name(), ".go") {
			out = append(out, p)
		}
		return nil
	})
	sort.Strings(out)
	return out
}

func pkgPathOfFile(f string) string {
	d := filepath.Dir(f)
	rel, _ := filepath.Rel(repoRoot, d)
	if rel == "." {
		return modPath
	}
	return modPath + "/" + filepath.ToSlash(rel)
}

// loadWorld loads the packages that have contracts for property prop (or all contract packages if prop=="").
func loadWorld(prop string, extraPkgs []string) (*World, error) {
	w := &World{specs: map[string]*FuncSpec{}, extern: map[string]*FuncSpec{}, ifaceSpecs: map[string]*FuncSpec{}, specFuncs: map[string]*SpecFunc{},
		specFuncPkg: map[string]*types.Package{}, usedLib: map[string]bool{}, refuted: map[string]bool{}, spkgs: map[string]*ssa.Package{},
		typesPkgs: map[string]*types.Package{}, pureLib: map[string]bool{}, globalGhosts: map[string]string{}, kfExcept: map[string]Expr{}}
	files := findContractFiles()
	w.specFiles = files
	parsed := map[string]*SpecFile{}
	want := map[string]bool{}
	for _, f := range files {
		pp := pkgPathOfFile(f)
		sf, err := parseContractFile(f, pp)
		if err != nil {
			return nil, err
		}
		parsed[f] = sf
		hit := prop == ""
		for _, fs := range sf.Funcs {
			for _, p := range fs.Props {
				if p == prop {
					hit = true
				}
			}
		}
		for _, l := range sf.Lemmas {
			for _, p := range l.Props {
				if p == prop {
					hit = true
				}
			}
		}
		if hit {
			want[pp] = true
		}
	}
	for _, p := range extraPkgs {
		want[p] = true
	}
	if len(want) == 0 {
		return nil, fmt.Errorf("no contract file mentions property %s", prop)
	}
	var patterns []string
	for p := range want {
		patterns = append(patterns, p)
	}
	sort.Strings(patterns)
	cfg := &packages.Config{Mode: packages.NeedName | packages.NeedFiles | packages.NeedCompiledGoFiles | packages.NeedImports | packages.NeedTypes | packages.NeedTypesSizes | packages.NeedSyntax | packages.NeedTypesInfo,
		Dir: repoRoot, BuildFlags: []string{"-tags=verif"}, Env: append(os.Environ(), "GOFLAGS=-mod=mod", "GOPROXY=off")}
	pkgs, err := packages.Load(cfg, patterns...)
	if err != nil {
		return nil, err
	}
	nerr := 0
	for _, p := range pkgs {
		for _, e := range p.Errors {
			fmt.Fprintln(os.Stderr, "load error:", e)
			nerr++
		}
	}
	if nerr > 0 {
		return nil, fmt.Errorf("%d package load errors", nerr)
	}
	w.pkgs = pkgs
	w.fset = pkgs[0].Fset
	prog, spkgs := ssautil.Packages(pkgs, ssa.NaiveForm|ssa.InstantiateGenerics)
	w.prog = prog
	for i, sp := range spkgs {
		if sp == nil {
			return nil, fmt.Errorf("no SSA for %s", pkgs[i].PkgPath)
		}
		sp.Build()
		w.spkgs[pkgs[i].PkgPath] = sp
		w.typesPkgs[pkgs[i].PkgPath] = pkgs[i].Types
		if w.lemmaPkg == nil {
			w.lemmaPkg = pkgs[i].Types
		}
	}
	// index every types.Package reachable (for callee contract evaluation)
	var walk func(p *types.Package)
	walk = func(p *types.Package) {
		if _, ok := w.typesPkgs[p.Path()]; ok && w.typesPkgs[p.Path()] == p {
			for _, i := range p.Imports() {
				if _, seen := w.typesPkgs[i.Path()]; !seen {
					w.typesPkgs[i.Path()] = i
					walk(i)
				}
			}
			return
		}
		w.typesPkgs[p.Path()] = p
		for _, i := range p.Imports() {
			if _, seen := w.typesPkgs[i.Path()]; !seen {
				walk(i)
			}
		}
	}
	for _, p := range pkgs {
		walk(p.Types)
	}
	// package names that are ambiguous in this world get path-qualified struct keys
	byName := map[string]map[string]bool{}
	for path, p := range w.typesPkgs {
		if byName[p.Name()] == nil {
			byName[p.Name()] = map[string]bool{}
		}
		byName[p.Name()][path] = true
	}
	ambiguousPkgNames = map[string]bool{}
	for n, paths := range byName {
		if len(paths) > 1 {
			ambiguousPkgNames[n] = true
		}
	}
	// register all contracts (from every contract file: callee contracts of packages not loaded with
	// syntax are usable too)
	for _, f := range files {
		sf := parsed[f]
		pp := pkgPathOfFile(f)
		for _, fs := range sf.Funcs {
			w.allSpecs = append(w.allSpecs, fs)
			name := fs.Name
			switch {
			case fs.Extern:
				w.extern[name] = fs
			case strings.HasPrefix(name, "iface "):
				fs.Name = strings.TrimSpace(strings.TrimPrefix(name, "iface "))
				fs.Trusted = true
				fs.Notes = append(fs.Notes, "contract on an interface method: assumed for every implementation")
				w.ifaceSpecs[pp+"::"+fs.Name] = fs
			default:
				w.specs[pp+"::"+normName(name)] = fs
			}
		}
		for _, s := range sf.SpecFuncs {
			if _, dup := w.specFuncs[pp+"::"+s.Name]; dup {
				return nil, fmt.Errorf("%s: duplicate spec function %s", f, s.Name)
			}
			w.specFuncs[pp+"::"+s.Name] = s
			w.specFuncPkg[pp+"::"+s.Name] = w.typesPkgs[pp]
		}
		for _, l := range sf.Lemmas {
			w.lemmas = append(w.lemmas, l)
		}
		for _, gg := range sf.Globals {
			w.globalGhosts[gg.Name] = gg.Type
		}
		for _, ax := range sf.Axioms {
			w.axioms = append(w.axioms, axiomIn{ax, pp})
		}
		if len(sf.Imports) > 0 {
			if w.specImports == nil {
				w.specImports = map[string]map[string]string{}
			}
			w.specImports[pp] = sf.Imports
		}
	}
	return w, nil
}

func (w *World) pkgOf(path string) *types.Package { return w.typesPkgs[path] }

func fnKey(f *ssa.Function) string {
	if f.Pkg == nil {
		// instantiated generic or synthetic wrapper
		if o := f.Origin(); o != nil && o.Pkg != nil {
			return o.Pkg.Pkg.Path() + "::" + normName(o.RelString(o.Pkg.Pkg))
		}
		return "::" + f.String()
	}
	return f.Pkg.Pkg.Path() + "::" + normName(f.RelString(f.Pkg.Pkg))
}

func (w *World) specFor(f *ssa.Function) *FuncSpec {
	if s, ok := w.specs[fnKey(f)]; ok {
		return s
	}
	if s, ok := w.extern[f.String()]; ok {
		return s
	}
	return nil
}

func (w *World) specForMethod(recv types.Type, m *types.Func) *FuncSpec {
	if n, ok := recv.(*types.Named); ok && n.Obj().Pkg() != nil {
		if s, ok := w.ifaceSpecs[n.Obj().Pkg().Path()+"::"+n.Obj().Name()+"."+m.Name()]; ok {
			return s
		}
	}
	return nil
}

func (w *World) isRefuted(spec *FuncSpec, label string) bool {
	return w.refuted[spec.Pkg+"::"+normName(spec.Name)+"#"+label]
}

func (w *World) isPureLib(f *ssa.Function) bool {
	if f.Pkg == nil {
		return false
	}
	switch f.Pkg.Pkg.Path() {
	case "strings", "bytes", "math", "strconv", "unicode", "unicode/utf8", "errors", "sort", "math/bits", "path/filepath", "path", "regexp", "regexp/syntax", "hash/crc32":
		return !strings.HasPrefix(f.Name(), "Sort") && f.Name() != "Slice" && f.Name() != "Stable" && f.Name() != "SliceStable" && f.Name() != "Ints" && f.Name() != "Strings"
	case "fmt":
		return strings.HasPrefix(f.Name(), "Sprint") || f.Name() == "Errorf"
	case "go.uber.org/zap", "go.uber.org/zap/zapcore", "github.com/openGemini/openGemini/lib/logger", "github.com/openGemini/openGemini/lib/statisticsPusher/statistics":
		// logging / metrics: no effect on the state the contracts talk about (DESIGN §2.6)
		w.usedLib["logging/metrics calls treated as having no caller-visible effect: "+f.Pkg.Pkg.Path()] = true
		return true
	}
	return false
}

func (w *World) lookupType(name string, ctx *types.Package) types.Type {
	ptr := strings.HasPrefix(name, "*")
	name = strings.TrimPrefix(name, "*")
	var obj types.Object
	if i := strings.LastIndex(name, "."); i >= 0 {
		pn, tn := name[:i], name[i+1:]
		if ctx != nil {
			if full, ok := w.specImports[ctx.Path()][pn]; ok {
				pn = full
			}
		}
		// the contract's own package and its direct imports take precedence (two packages may share a name)
		if ctx != nil {
			for _, p := range append([]*types.Package{ctx}, ctx.Imports()...) {
				if p.Path() == pn || p.Name() == pn {
					if o := p.Scope().Lookup(tn); o != nil {
						obj = o
						break
					}
				}
			}
		}
		if obj == nil {
			paths := make([]string, 0, len(w.typesPkgs))
			for path := range w.typesPkgs {
				paths = append(paths, path)
			}
			sort.Strings(paths)
			for _, path := range paths {
				p := w.typesPkgs[path]
				if path == pn || p.Name() == pn {
					if o := p.Scope().Lookup(tn); o != nil {
						obj = o
						break
					}
				}
			}
		}
	} else if ctx != nil {
		obj = ctx.Scope().Lookup(name)
		if obj == nil {
			obj = types.Universe.Lookup(name)
		}
	}
	if obj == nil {
		return nil
	}
	if ptr {
		return types.NewPointer(obj.Type())
	}
	return obj.Type()
}

// findFunction resolves a contract's function name inside its package.
func (w *World) findFunction(fs *FuncSpec) *ssa.Function {
	sp := w.spkgs[fs.Pkg]
	if sp == nil {
		return nil
	}
	want := normName(fs.Name)
	var found *ssa.Function
	var visit func(f *ssa.Function)
	visit = func(f *ssa.Function) {
		if f == nil {
			return
		}
		if normName(f.RelString(sp.Pkg)) == want {
			found = f
		}
		// "init@file.go": the init function declared in that file (go/ssa numbers them init#1.. in file order,
		// which would change when an unrelated init is added)
		// "init@var:NAME": the package initializer, restricted to the initializer expression of package variable NAME
		if strings.HasPrefix(want, "init@var:") && f.Name() == "init" && f.Synthetic != "" {
			found = f
		}
		if strings.HasPrefix(want, "init@") && !strings.HasPrefix(want, "init@var:") && strings.HasPrefix(f.Name(), "init#") && f.Pos().IsValid() {
			if filepath.Base(w.fset.Position(f.Pos()).Filename) == strings.TrimPrefix(want, "init@") {
				found = f
			}
		}
		for _, a := range f.AnonFuncs {
			visit(a)
		}
	}
	for _, m := range sp.Members {
		switch x := m.(type) {
		case *ssa.Function:
			visit(x)
		case *ssa.Type:
			for _, t := range []types.Type{x.Type(), types.NewPointer(x.Type())} {
				ms := w.prog.MethodSets.MethodSet(t)
				for i := 0; i < ms.Len(); i++ {
					f := w.prog.MethodValue(ms.At(i))
					if f != nil && f.Pkg == sp && f.Synthetic == "" {
						visit(f)
					}
				}
			}
		}
	}
	return found
}

type axiomIn struct {
	c   Clause
	pkg string
}

// lookupSpecFunc: spec functions are scoped by the package of their contract file.
func (w *World) lookupSpecFunc(name string, ctx *types.Package) (*SpecFunc, *types.Package) {
	if ctx != nil {
		if s, ok := w.specFuncs[ctx.Path()+"::"+name]; ok {
			return s, w.specFuncPkg[ctx.Path()+"::"+name]
		}
	}
	var found *SpecFunc
	var fp *types.Package
	n := 0
	for k, s := range w.specFuncs {
		if strings.HasSuffix(k, "::"+name) {
			found, fp = s, w.specFuncPkg[k]
			n++
		}
	}
	if n == 1 {
		return found, fp
	}
	return nil, nil
}

// pkgSyntax returns the parsed files of a loaded package.
func (w *World) pkgSyntax(path string) []*ast.File {
	for _, p := range w.pkgs {
		if p.PkgPath == path {
			return p.Syntax
		}
	}
	return nil
}
