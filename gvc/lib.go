package main

// Native models of standard-library functions (the T-* catalogue of DESIGN.md §4).
// Each model is an ASSUMPTION about code outside /repo and is reported in the evidence.

import (
	"fmt"
	"go/token"
	"go/types"
	"math/big"
	"strings"

	"golang.org/x/tools/go/ssa"
)

var tokenLSS = token.LSS

func (g *Gen) argVal(c *ssa.CallCommon, i int, st *State) Val { return g.val(c.Args[i], st) }

func (g *Gen) libModel(f *ssa.Function, c *ssa.CallCommon, st *State) ([]Val, bool) {
	name := f.String()
	sig := c.Signature()
	one := func(v Val) ([]Val, bool) {
		g.W.usedLib[name] = true
		v.T = g.define("lib", v.S, v.T)
		return []Val{v}, true
	}
	rt := func() types.Type { return sig.Results().At(0).Type() }
	switch name {
	// ---------------- time (T-time): a Time is its ns since the Unix epoch (mathematical Int)
	case "time.Now":
		g.W.usedLib[name] = true
		n := g.fresh("now")
		g.declare(n, "Int")
		if v, ok := st.ghosts["$now"]; ok {
			g.assume("true", fmt.Sprintf("(>= %s %s)", n, v.T)) // the clock is monotone
		}
		g.modelVars = append(g.modelVars, ModelVar{Name: "time.Now()", Term: n, Sort: "Int"})
		r := Val{T: n, S: sInt, G: rt()}
		st.ghosts["$now"] = r
		return []Val{r}, true
	case "(time.Time).Add":
		return one(Val{T: fmt.Sprintf("(+ %s %s)", g.argVal(c, 0, st).T, g.asInt(g.argVal(c, 1, st))), S: sInt, G: rt()})
	case "(time.Time).Sub":
		return one(Val{T: g.fromInt(fmt.Sprintf("(- %s %s)", g.argVal(c, 0, st).T, g.argVal(c, 1, st).T), rt()), S: g.sortOf(rt()), G: rt()})
	case "(time.Time).Before":
		return one(Val{T: fmt.Sprintf("(< %s %s)", g.argVal(c, 0, st).T, g.argVal(c, 1, st).T), S: sBool, G: rt()})
	case "(time.Time).After":
		return one(Val{T: fmt.Sprintf("(> %s %s)", g.argVal(c, 0, st).T, g.argVal(c, 1, st).T), S: sBool, G: rt()})
	case "(time.Time).Equal":
		return one(Val{T: sEq(g.argVal(c, 0, st).T, g.argVal(c, 1, st).T), S: sBool, G: rt()})
	case "(time.Time).Compare":
		a, b := g.argVal(c, 0, st).T, g.argVal(c, 1, st).T
		return one(Val{T: g.fromInt(fmt.Sprintf("(ite (< %s %s) (- 1) (ite (> %s %s) 1 0))", a, b, a, b), rt()), S: g.sortOf(rt()), G: rt()})
	case "(time.Time).UTC", "(time.Time).Local", "(time.Time).In", "(time.Time).Round0":
		return one(Val{T: g.argVal(c, 0, st).T, S: sInt, G: rt()})
	case "(time.Time).IsZero":
		return one(Val{T: sEq(g.argVal(c, 0, st).T, timeZeroNS), S: sBool, G: rt()})
	case "(time.Time).UnixNano":
		t := g.argVal(c, 0, st).T
		r := Val{T: g.fromInt(t, rt()), S: g.sortOf(rt()), G: rt()}
		if !g.bv {
			g.oblige("nooverflow", "C", "UnixNano result representable in int64", st.reach, fmt.Sprintf("(and (<= (- 9223372036854775808) %s) (<= %s 9223372036854775807))", t, t), true)
		}
		return one(r)
	case "(time.Time).Unix":
		t := g.argVal(c, 0, st).T
		return one(Val{T: g.fromInt(fmt.Sprintf("(div %s 1000000000)", t), rt()), S: g.sortOf(rt()), G: rt()})
	case "time.Unix":
		s, ns := g.asInt(g.argVal(c, 0, st)), g.asInt(g.argVal(c, 1, st))
		return one(Val{T: fmt.Sprintf("(+ (* %s 1000000000) %s)", s, ns), S: sInt, G: rt()})
	case "(time.Time).Truncate":
		t, d := g.argVal(c, 0, st).T, g.asInt(g.argVal(c, 1, st))
		// d <= 0 returns t unchanged; otherwise the largest multiple of d (counted from year 1) that is <= t:
		// r <= t < r + d and aligned(r - Z0, d)
		g.W.usedLib[name] = true
		g.declareFun("aligned", "(Int Int) Bool")
		r := g.fresh("trunc")
		g.declare(r, "Int")
		g.assume("true", fmt.Sprintf("(ite (<= %[2]s 0) (= %[4]s %[1]s) (and (<= %[4]s %[1]s) (< %[1]s (+ %[4]s %[2]s)) (aligned (- %[4]s %[3]s) %[2]s)))", t, d, timeZeroNS, r))
		return []Val{{T: r, S: sInt, G: rt()}}, true
	case "time.Since":
		n := g.fresh("now")
		g.declare(n, "Int")
		return one(Val{T: g.fromInt(fmt.Sprintf("(- %s %s)", n, g.argVal(c, 0, st).T), rt()), S: g.sortOf(rt()), G: rt()})
	case "(time.Duration).Nanoseconds":
		return one(Val{T: g.argVal(c, 0, st).T, S: g.sortOf(rt()), G: rt()})
	// ---------------- math
	case "math.Float64bits":
		v := g.argVal(c, 0, st)
		g.declareFun("f64.bits", "((_ FloatingPoint 11 53)) (_ BitVec 64)")
		b := g.define("bits", bvSort(64), fmt.Sprintf("(f64.bits %s)", v.T))
		g.assume("true", fmt.Sprintf("(= ((_ to_fp 11 53) %s) %s)", b, v.T))
		if g.bv {
			return one(Val{T: b, S: bvSort(64), G: rt()})
		}
		return one(Val{T: fmt.Sprintf("(bv2nat %s)", b), S: sInt, G: rt()})
	case "math.Float64frombits":
		v := g.argVal(c, 0, st)
		if g.bv {
			g.declareFun("f64.bits", "((_ FloatingPoint 11 53)) (_ BitVec 64)")
			r := g.define("fb", sF64, fmt.Sprintf("((_ to_fp 11 53) %s)", v.T))
			// bit-exact inverse (payload preserving), as the hardware does
			g.assume("true", fmt.Sprintf("(= (f64.bits %s) %s)", r, v.T))
			return one(Val{T: r, S: sF64, G: rt()})
		}
		return one(Val{T: fmt.Sprintf("((_ to_fp 11 53) ((_ int2bv 64) %s))", v.T), S: sF64, G: rt()})
	case "math.IsNaN":
		return one(Val{T: fmt.Sprintf("(fp.isNaN %s)", g.argVal(c, 0, st).T), S: sBool, G: rt()})
	case "math.IsInf":
		v := g.argVal(c, 0, st)
		s := g.asInt(g.argVal(c, 1, st))
		if g.bv {
			s = fmt.Sprintf("(ite (bvsgt %[1]s %[2]s) 1 (ite (bvslt %[1]s %[2]s) (- 1) 0))", g.argVal(c, 1, st).T, bvLit(big.NewInt(0), 64))
		}
		return one(Val{T: fmt.Sprintf("(and (fp.isInfinite %[1]s) (or (= %[2]s 0) (and (> %[2]s 0) (fp.isPositive %[1]s)) (and (< %[2]s 0) (fp.isNegative %[1]s))))", v.T, s), S: sBool, G: rt()})
	case "math.Abs":
		return one(Val{T: fmt.Sprintf("(fp.abs %s)", g.argVal(c, 0, st).T), S: sF64, G: rt()})
	// ---------------- protobuf scalar boxes: proto.Uint64(v) etc. return a pointer to a fresh cell holding v
	case "github.com/gogo/protobuf/proto.Uint64", "github.com/gogo/protobuf/proto.Int64", "github.com/gogo/protobuf/proto.Uint32", "github.com/gogo/protobuf/proto.Int32",
		"github.com/gogo/protobuf/proto.Bool", "github.com/gogo/protobuf/proto.String", "github.com/gogo/protobuf/proto.Float64", "github.com/gogo/protobuf/proto.Int",
		"github.com/golang/protobuf/proto.Uint64", "github.com/golang/protobuf/proto.Int64", "github.com/golang/protobuf/proto.Uint32", "github.com/golang/protobuf/proto.Int32",
		"github.com/golang/protobuf/proto.Bool", "github.com/golang/protobuf/proto.String", "github.com/golang/protobuf/proto.Float64",
		"google.golang.org/protobuf/proto.Uint64", "google.golang.org/protobuf/proto.Int64", "google.golang.org/protobuf/proto.Uint32", "google.golang.org/protobuf/proto.Int32",
		"google.golang.org/protobuf/proto.Bool", "google.golang.org/protobuf/proto.String", "google.golang.org/protobuf/proto.Float64":
		g.W.usedLib[name] = true
		v := g.argVal(c, 0, st)
		et := rt().Underlying().(*types.Pointer).Elem()
		v = g.convert(v, c.Args[0].Type(), et, st)
		id := g.newObj(st)
		p := Val{T: fmt.Sprintf("(pobj %s)", id), S: sPtr, G: rt()}
		g.storePtr(p, et, nil, v, st)
		return []Val{p}, true
	// ---------------- errors: a freshly made error is non-nil
	case "github.com/pkg/errors.Wrap", "github.com/pkg/errors.Wrapf", "github.com/pkg/errors.WithStack", "github.com/pkg/errors.WithMessage", "github.com/pkg/errors.WithMessagef", "github.com/cockroachdb/errors.Wrap", "github.com/cockroachdb/errors.Wrapf", "github.com/cockroachdb/errors.WithStack":
		// wrapping keeps nil-ness: Wrap(nil, ...) == nil
		g.W.usedLib[name] = true
		in := g.argVal(c, 0, st)
		n := g.fresh("werr")
		g.declare(n, "Iface")
		g.assume("true", sEq(sEq(n, "(mk-iface 0 0)"), sEq(in.T, "(mk-iface 0 0)")))
		return []Val{{T: n, S: sIface, G: rt()}}, true
	case "errors.New", "fmt.Errorf", "github.com/openGemini/openGemini/lib/errno.NewError", "github.com/pkg/errors.New", "github.com/pkg/errors.Errorf":
		g.W.usedLib[name] = true
		n := g.fresh("err")
		rs := g.sortOf(rt())
		g.declare(n, rs.SMT())
		if rs.K == KPtr {
			g.assume("true", fmt.Sprintf("(is-pobj %s)", n))
			rv := Val{T: n, S: sPtr, G: rt()}
			g.assume(st.reach, g.wfFact(rv, st))
			return []Val{rv}, true
		}
		g.assume("true", fmt.Sprintf("(not (= %s (mk-iface 0 0)))", n))
		return []Val{{T: n, S: sIface, G: rt()}}, true
	case "fmt.Sprintf", "fmt.Sprint", "strconv.Itoa", "strconv.FormatInt", "strconv.FormatUint":
		g.W.usedLib[name] = true
		return []Val{g.freshVal("s", rt(), st, st.reach)}, true
	// ---------------- sync: sequential semantics (T-lock)
	case "(*sync.Mutex).Lock", "(*sync.Mutex).Unlock", "(*sync.RWMutex).Lock", "(*sync.RWMutex).Unlock", "(*sync.RWMutex).RLock", "(*sync.RWMutex).RUnlock",
		"(*sync.WaitGroup).Add", "(*sync.WaitGroup).Done", "(*sync.WaitGroup).Wait", "(*sync.Once).Do", "(*sync.Mutex).TryLock":
		g.W.usedLib[name] = true
		if sig.Results().Len() == 1 {
			return []Val{g.freshVal("ok", rt(), nil, "true")}, true
		}
		return nil, true
	}
	// sync/atomic: sequential read-modify-write
	if strings.HasPrefix(name, "sync/atomic.") {
		return g.atomicModel(name, c, st)
	}
	if strings.HasPrefix(name, "(*sync/atomic.") {
		g.W.usedLib[name] = true
		g.note("typed atomic " + name + " in " + g.key + ": value unconstrained")
		var res []Val
		for i := 0; i < sig.Results().Len(); i++ {
			res = append(res, g.freshVal("at", sig.Results().At(i).Type(), st, st.reach))
		}
		return res, true
	}
	// encoding/binary big/little endian
	if strings.HasPrefix(name, "(encoding/binary.bigEndian).") || strings.HasPrefix(name, "(encoding/binary.littleEndian).") {
		return g.binaryModel(name, c, st)
	}
	return nil, false
}

func (g *Gen) asInt(v Val) string {
	if v.S.K == KBV {
		ii, _ := basicIntInfo(v.G)
		if ii.signed {
			// signed interpretation
			return fmt.Sprintf("(ite (bvslt %[1]s %[2]s) (- (bv2nat %[1]s) %[3]s) (bv2nat %[1]s))", v.T, bvLit(big.NewInt(0), v.S.W), pow2(v.S.W).String())
		}
		return fmt.Sprintf("(bv2nat %s)", v.T)
	}
	return v.T
}

func (g *Gen) fromInt(t string, gt types.Type) string {
	s := g.sortOf(gt)
	if s.K == KBV {
		return fmt.Sprintf("((_ int2bv %d) %s)", s.W, t)
	}
	return t
}

func (g *Gen) atomicModel(name string, c *ssa.CallCommon, st *State) ([]Val, bool) {
	g.W.usedLib[name] = true
	short := strings.TrimPrefix(name, "sync/atomic.")
	a := g.addrOf(c.Args[0], st)
	sig := c.Signature()
	switch {
	case strings.HasPrefix(short, "Load"):
		v := g.loadAddr(a, st)
		return []Val{v}, true
	case strings.HasPrefix(short, "Store"):
		g.storeAddr(a, g.val(c.Args[1], st), st)
		return nil, true
	case strings.HasPrefix(short, "Add"):
		cur := g.loadAddr(a, st)
		d := g.val(c.Args[1], st)
		et := sig.Results().At(0).Type()
		nv := g.binop(token.ADD, cur, d, et, et, nil)
		if !g.bv {
			// atomics wrap: keep mathematical value but note it
			g.note("atomic add in " + g.key + " treated as mathematical (wraparound not modelled)")
		}
		nv.T = g.define("atom", nv.S, nv.T)
		g.storeAddr(a, nv, st)
		return []Val{nv}, true
	case strings.HasPrefix(short, "CompareAndSwap"):
		cur := g.loadAddr(a, st)
		old, nw := g.val(c.Args[1], st), g.val(c.Args[2], st)
		ok := g.defineRaw("cas", "Bool", sEq(cur.T, old.T))
		g.storeAddr(a, Val{T: sIte(ok, nw.T, cur.T), S: cur.S, G: cur.G}, st)
		return []Val{{T: ok, S: sBool, G: types.Typ[types.Bool]}}, true
	case strings.HasPrefix(short, "Swap"):
		cur := g.loadAddr(a, st)
		g.storeAddr(a, g.val(c.Args[1], st), st)
		return []Val{cur}, true
	}
	return nil, false
}

// binaryModel: defining byte equations of encoding/binary (T-bin), bv mode only.
func (g *Gen) binaryModel(name string, c *ssa.CallCommon, st *State) ([]Val, bool) {
	g.W.usedLib[name] = true
	big := strings.Contains(name, "bigEndian")
	method := name[strings.LastIndex(name, ".")+1:]
	if !g.bv {
		g.note("encoding/binary." + method + " in int-mode function " + g.key + ": result unconstrained")
		return nil, false
	}
	width := map[string]int{"Uint16": 2, "Uint32": 4, "Uint64": 8, "PutUint16": 2, "PutUint32": 4, "PutUint64": 8, "AppendUint16": 2, "AppendUint32": 4, "AppendUint64": 8}[method]
	if width == 0 {
		return nil, false
	}
	es := g.byteSort()
	ename, esort := g.elemMapName(es)
	switch {
	case strings.HasPrefix(method, "Uint"):
		b := g.val(c.Args[1], st)
		g.oblige("bounds", "C", fmt.Sprintf("binary.%s needs %d bytes", method, width), st.reach, g.idxLe(g.idxLit(int64(width)), fmt.Sprintf("(sl.len %s)", b.T)), true)
		h := g.heapGet(st, ename, esort)
		var parts []string
		for i := 0; i < width; i++ {
			k := i
			if !big {
				k = width - 1 - i
			}
			parts = append(parts, fmt.Sprintf("(select (select %s (sl.arr %s)) %s)", h, b.T, g.idxAdd(fmt.Sprintf("(sl.off %s)", b.T), g.idxLit(int64(k)))))
		}
		t := "(concat " + strings.Join(parts, " ") + ")"
		return []Val{{T: g.define("be", bvSort(width*8), t), S: bvSort(width * 8), G: c.Signature().Results().At(0).Type()}}, true
	case strings.HasPrefix(method, "PutUint"):
		b := g.val(c.Args[1], st)
		v := g.val(c.Args[2], st)
		g.oblige("bounds", "C", fmt.Sprintf("binary.%s needs %d bytes", method, width), st.reach, g.idxLe(g.idxLit(int64(width)), fmt.Sprintf("(sl.len %s)", b.T)), true)
		h := g.heapGet(st, ename, esort)
		arr := fmt.Sprintf("(select %s (sl.arr %s))", h, b.T)
		for i := 0; i < width; i++ {
			k := i
			if !big {
				k = width - 1 - i
			}
			hi := (width-i)*8 - 1
			arr = fmt.Sprintf("(store %s %s ((_ extract %d %d) %s))", arr, g.idxAdd(fmt.Sprintf("(sl.off %s)", b.T), g.idxLit(int64(k))), hi, hi-7, v.T)
		}
		st.heap[ename] = g.defineRaw("h", esort, fmt.Sprintf("(store %s (sl.arr %s) %s)", h, b.T, arr))
		return nil, true
	}
	return nil, false
}
