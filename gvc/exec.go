package main

import (
	"fmt"
	"go/ast"
	"go/constant"
	"go/token"
	"go/types"
	"math"
	"math/big"
	"sort"
	"strings"

	"golang.org/x/tools/go/ssa"
)

func float64bits(f float64) uint64 { return math.Float64bits(f) }
func float32bits(f float32) uint32 { return math.Float32bits(f) }

func constantStringVal(c *ssa.Const) string {
	if c.Value.Kind() == constant.String {
		return constant.StringVal(c.Value)
	}
	return c.Value.String()
}

// ---------------------------------------------------------------- driver

func (g *Gen) run() {
	fn := g.fn
	if len(fn.Blocks) == 0 {
		g.errorf("function %s has no body", fn.String())
		return
	}
	g.classifyAllocs()
	g.findLoops()
	if g.spec != nil && strings.HasPrefix(g.spec.Name, "init@var:") {
		g.initVarSlice(strings.TrimPrefix(g.spec.Name, "init@var:"))
	}
	if g.spec != nil {
		for _, fc := range g.spec.FieldCover {
			g.fieldCover(fc)
		}
	}

	st := &State{reach: "true", locals: map[*ssa.Alloc]Val{}, heap: map[string]string{}, ghosts: map[string]Val{}, pend: map[string]int{}}
	g.declare("alloc0", "Int")
	g.assumes = append(g.assumes, "(<= 0 alloc0)")
	st.alloc = "alloc0"
	g.entry = st.clone()

	// parameters
	for _, p := range fn.Params {
		v := g.freshVal("p_"+mangle(p.Name()), p.Type(), st, "true")
		g.vals[p] = v
		g.params[p.Name()] = v
		g.modelVars = append(g.modelVars, ModelVar{Name: p.Name(), Term: v.T, Sort: v.S.SMT()})
	}
	for _, fv := range fn.FreeVars {
		v := g.freshVal("fv_"+mangle(fv.Name()), fv.Type(), st, "true")
		g.vals[fv] = v
	}
	// ghosts
	if g.spec != nil {
		env := g.specEnv(st, nil)
		for _, gh := range g.spec.Ghosts {
			iv := env.eval(gh.Init)
			iv = g.coerceToSpecType(iv, gh.Type)
			st.ghosts[gh.Name] = iv
		}
		// preconditions
		env = g.specEnv(st, nil)
		for _, c := range g.spec.Requires {
			t := env.evalBool(c.E)
			g.assume("true", t)
		}
	}
	g.addInputModelVars(st)
	g.entry = st.clone()

	// process blocks in reverse postorder of the back-edge-cut graph
	order := g.rpo()
	for _, b := range order {
		var in *State
		if b == fn.Blocks[0] {
			in = st
		} else {
			in = g.mergeInto(b)
			if in == nil {
				continue // unreachable block
			}
		}
		if li := g.loops[b]; li != nil {
			in = g.enterLoop(li, in)
		}
		g.execBlock(b, in)
	}
}

func (g *Gen) rpo() []*ssa.BasicBlock {
	seen := map[*ssa.BasicBlock]bool{}
	var post []*ssa.BasicBlock
	var dfs func(b *ssa.BasicBlock)
	dfs = func(b *ssa.BasicBlock) {
		seen[b] = true
		for _, s := range b.Succs {
			if seen[s] || s.Dominates(b) {
				continue
			}
			dfs(s)
		}
		post = append(post, b)
	}
	dfs(g.fn.Blocks[0])
	if g.fn.Recover != nil && !seen[g.fn.Recover] {
		// recover block: not modelled
	}
	for i, j := 0, len(post)-1; i < j; i, j = i+1, j-1 {
		post[i], post[j] = post[j], post[i]
	}
	return post
}

// edgeCond: condition under which control flows p -> b (given p's exit state).
func (g *Gen) edgeCond(p, b *ssa.BasicBlock) string {
	st := g.exit[p]
	if st == nil {
		return "false"
	}
	last := p.Instrs[len(p.Instrs)-1]
	if iff, ok := last.(*ssa.If); ok {
		c := g.val(iff.Cond, st).T
		if p.Succs[0] == b && p.Succs[1] == b {
			return st.reach
		}
		if p.Succs[0] == b {
			return sAnd(st.reach, c)
		}
		return sAnd(st.reach, sNot(c))
	}
	return st.reach
}

func (g *Gen) mergeInto(b *ssa.BasicBlock) *State {
	type inc struct {
		p    *ssa.BasicBlock
		cond string
		st   *State
	}
	var ins []inc
	for _, p := range b.Preds {
		if b.Dominates(p) && g.loops[b] != nil {
			continue // back edge
		}
		st := g.exit[p]
		if st == nil {
			continue
		}
		c := g.edgeCond(p, b)
		c = g.defineRaw("e", "Bool", c)
		ins = append(ins, inc{p, c, st})
	}
	if len(ins) == 0 {
		return nil
	}
	if len(ins) == 1 {
		n := ins[0].st.clone()
		n.reach = ins[0].cond
		return n
	}
	n := &State{locals: map[*ssa.Alloc]Val{}, heap: map[string]string{}, ghosts: map[string]Val{}, pend: map[string]int{}}
	var conds []string
	for _, i := range ins {
		conds = append(conds, i.cond)
	}
	n.reach = g.defineRaw("r", "Bool", sOr(conds...))
	mergeTerm := func(get func(s *State) (string, bool), sortS string, dflt func() string) (string, bool) {
		var ts []string
		same := true
		any := false
		for _, i := range ins {
			t, ok := get(i.st)
			if !ok {
				t = dflt()
			} else {
				any = true
			}
			ts = append(ts, t)
			if t != ts[0] {
				same = false
			}
		}
		if !any {
			return "", false
		}
		if same {
			return ts[0], true
		}
		r := ts[len(ts)-1]
		for k := len(ts) - 2; k >= 0; k-- {
			r = sIte(ins[k].cond, ts[k], r)
		}
		return g.defineRaw("m", sortS, r), true
	}
	// locals
	allLocals := map[*ssa.Alloc]bool{}
	for _, i := range ins {
		for a := range i.st.locals {
			allLocals[a] = true
		}
	}
	for _, a := range g.sortedAllocs(allLocals) {
		et := a.Type().(*types.Pointer).Elem()
		s := g.sortOf(et)
		t, ok := mergeTerm(func(s *State) (string, bool) { v, ok := s.locals[a]; return v.T, ok }, s.SMT(), func() string { return g.zero(et).T })
		if ok {
			n.locals[a] = Val{T: t, S: s, G: et}
		}
	}
	// heap
	allHeap := map[string]bool{}
	for _, i := range ins {
		for k := range i.st.heap {
			allHeap[k] = true
		}
	}
	for _, k := range sortedKeys(allHeap) {
		srt := g.heapSorts[k]
		t, _ := mergeTerm(func(s *State) (string, bool) { return g.heapGet(s, k, srt), true }, srt, nil)
		n.heap[k] = t
	}
	// ghosts
	allG := map[string]Val{}
	for _, i := range ins {
		for k, v := range i.st.ghosts {
			allG[k] = v
		}
	}
	for _, k := range sortedKeys(allG) {
		v0 := allG[k]
		t, _ := mergeTerm(func(s *State) (string, bool) { v, ok := s.ghosts[k]; return v.T, ok }, v0.S.SMT(), func() string { return v0.T })
		n.ghosts[k] = Val{T: t, S: v0.S, G: v0.G}
	}
	t, _ := mergeTerm(func(s *State) (string, bool) { return s.alloc, true }, "Int", nil)
	n.alloc = t
	// havoc generations: equal on all incoming paths, or a new (unknown) generation
	n.gen = ins[0].st.gen
	n.pend = map[string]int{}
	for _, i := range ins {
		if i.st.gen != n.gen {
			g.ctr++
			n.gen = g.ctr
			break
		}
	}
	for _, i := range ins {
		for _, k := range sortedKeys(i.st.pend) {
			v := i.st.pend[k]
			if old, ok := n.pend[k]; ok && old != v {
				g.ctr++
				v = g.ctr
			}
			n.pend[k] = v
		}
	}
	for _, k := range sortedKeys(n.pend) {
		for _, i := range ins {
			if _, ok := i.st.pend[k]; !ok {
				g.ctr++
				n.pend[k] = g.ctr
				break
			}
		}
	}
	return n
}

// classifyAllocs: an Alloc is a plain local variable if its address never escapes into a value position.
// closureOnlyReads: every use of the captured variable v inside the closure (and closures nested in it) is a load.
func closureOnlyReads(mc *ssa.MakeClosure, v ssa.Value) bool {
	fn, ok := mc.Fn.(*ssa.Function)
	if !ok {
		return false
	}
	for k, b := range mc.Bindings {
		if b != v {
			continue
		}
		if k >= len(fn.FreeVars) {
			return false
		}
		refs := fn.FreeVars[k].Referrers()
		if refs == nil {
			return false
		}
		for _, r := range *refs {
			switch y := r.(type) {
			case *ssa.UnOp:
				if y.Op != token.MUL {
					return false
				}
			case *ssa.DebugRef:
			case *ssa.MakeClosure:
				if !closureOnlyReads(y, fn.FreeVars[k]) {
					return false
				}
			default:
				return false
			}
		}
	}
	return true
}

func (g *Gen) classifyAllocs() {
	g.isLocal = map[*ssa.Alloc]bool{}
	var addrOnly func(v ssa.Value) bool
	addrOnly = func(v ssa.Value) bool {
		refs := v.Referrers()
		if refs == nil {
			return false
		}
		for _, r := range *refs {
			switch x := r.(type) {
			case *ssa.UnOp:
				if x.Op != token.MUL {
					return false
				}
			case *ssa.Store:
				if x.Val == v {
					return false
				}
			case *ssa.FieldAddr:
				if !addrOnly(x) {
					return false
				}
			case *ssa.IndexAddr:
				if !addrOnly(x) {
					return false
				}
			case *ssa.DebugRef:
			case *ssa.MakeClosure:
				// captured by a closure that only reads it: nobody else can write the variable
				if !closureOnlyReads(x, v) {
					return false
				}
			case ssa.CallInstruction:
				// allow &x.mu passed to sync methods / atomics: treated specially
				c := x.Common()
				if callee := c.StaticCallee(); callee != nil && callee.Pkg != nil && (callee.Pkg.Pkg.Path() == "sync" || callee.Pkg.Pkg.Path() == "sync/atomic") {
					continue
				}
				return false
			default:
				return false
			}
		}
		return true
	}
	g.allocOrder = map[*ssa.Alloc]int{}
	for _, b := range g.fn.Blocks {
		for _, in := range b.Instrs {
			if a, ok := in.(*ssa.Alloc); ok {
				g.isLocal[a] = addrOnly(a)
				g.allocOrder[a] = len(g.allocOrder)
			}
		}
	}
}

// ---------------------------------------------------------------- loops

func (g *Gen) enterLoop(li *loopInfo, in *State) *State {
	g.curPos = li.stmtPos
	if li.spec == nil {
		g.note(fmt.Sprintf("loop %d of %s has no invariant: treated as `true` (everything the loop writes is havoc'd)", li.ordinal, g.key))
		li.spec = &LoopSpec{Ordinal: li.ordinal}
	}
	// 1. invariant holds on entry
	env := g.specEnv(in, g.entry)
	env.useLocals = true
	env.atLoop = li
	for _, c := range li.spec.Invariants {
		g.oblige(c.Label+".entry", "A", "loop invariant holds on entry: "+c.Src, in.reach, env.evalBool(c.E), false)
	}
	frameInv := g.spec != nil && g.spec.HasAssigns && !g.spec.TrustedFrame
	if frameInv {
		for _, k := range sortedKeys(in.heap) {
			if goal, ok := g.frameGoal(k, in.heap[k]); ok {
				g.oblige(fmt.Sprintf("inv.%d.frame.%s.entry", li.ordinal, k), "A", "frame invariant holds on loop entry for "+k, in.reach, goal, false)
			}
		}
	}
	// 2. havoc everything the loop may write
	st := in.clone()
	locals, allHeap, _ := g.loopWrites(li)
	for _, a := range g.sortedAllocs(locals) {
		et := a.Type().(*types.Pointer).Elem()
		st.locals[a] = g.freshVal("lv_"+mangle(a.Comment), et, in, in.reach)
	}
	if allHeap {
		g.havocHeap(st, g.loopAssignable(li))
	} else {
		// stores through pointers: havoc the maps of the stored types
		g.havocHeap(st, g.loopAssignable(li))
	}
	for _, k := range sortedKeys(st.ghosts) {
		v := st.ghosts[k]
		if strings.HasPrefix(k, "$visited:") {
			// the set of keys already iterated by a map range: arbitrary at an arbitrary iteration
			inLoop := false
			for b := range li.body {
				for _, in := range b.Instrs {
					if nx, ok := in.(*ssa.Next); ok {
						if rg, ok := nx.Iter.(*ssa.Range); ok && "$visited:"+rg.Name() == k {
							inLoop = true
						}
					}
				}
			}
			if inLoop {
				n := g.fresh("visited")
				g.declare(n, v.S.SMT())
				st.ghosts[k] = Val{T: n, S: v.S, G: v.G}
			}
			continue
		}
		if g.ghostWrittenIn(li, k) {
			n := g.fresh("gh_" + k)
			g.declare(n, v.S.SMT())
			st.ghosts[k] = Val{T: n, S: v.S, G: v.G}
		}
	}
	// 3. assume invariant
	env2 := g.specEnv(st, g.entry)
	env2.useLocals = true
	env2.atLoop = li
	for _, c := range li.spec.Invariants {
		g.assume(st.reach, env2.evalBool(c.E))
	}
	if frameInv {
		for _, k := range sortedKeys(st.heap) {
			if goal, ok := g.frameGoal(k, st.heap[k]); ok {
				g.assume(st.reach, goal)
			}
		}
	}
	// structural fact of go/ssa's lowering of `for i := range slice`: the hidden index stays in [-1, len-1]
	if ri, ln := rangeIndexLoop(li.header); ri != nil {
		if v, ok := st.locals[ri]; ok {
			if lv, ok := g.vals[ln]; ok {
				if g.bv {
					g.assume(st.reach, fmt.Sprintf("(and (bvsle %s %s) (bvslt %s %s))", bvLit(big.NewInt(-1), 64), v.T, v.T, lv.T))
				} else {
					g.assume(st.reach, fmt.Sprintf("(and (<= (- 1) %s) (< %s %s))", v.T, v.T, lv.T))
				}
			}
		}
	}
	if li.spec.Decreases != nil {
		m := env2.eval(li.spec.Decreases.E)
		li.dec0 = g.define("dec", m.S, m.T)
	}
	g.loopHeadState[li.header] = st.clone()
	return st
}

// loopAssignable returns the set of heap variable names the loop may write (nil = all).
func (g *Gen) loopAssignable(li *loopInfo) map[string]bool {
	names := map[string]bool{}
	all := false
	for b := range li.body {
		for _, in := range b.Instrs {
			switch x := in.(type) {
			case *ssa.Store:
				if a := g.rootAlloc(x.Addr); a != nil && g.isLocal[a] {
					continue
				}
				if !g.addStoreTargets(x.Addr, names) {
					all = true
				}
			case *ssa.MapUpdate:
				mt := x.Map.Type().Underlying().(*types.Map)
				d, v := g.mapNames(mt)
				names[d] = true
				names[v] = true
			case *ssa.Alloc:
				if !g.isLocal[x] {
					// zero-initialisation of a fresh object does not change existing locations, but the
					// maps get a new version; handled by frame axiom on fresh ids -> treat as written
					g.addTypeTargets(x.Type().(*types.Pointer).Elem(), names)
					names["$alloc"] = true
				}
			case *ssa.MakeSlice:
				names["$alloc"] = true
				es := g.sortOf(x.Type().Underlying().(*types.Slice).Elem())
				n, _ := g.elemMapName(es)
				names[n] = true
				g.addTypeTargets(x.Type().Underlying().(*types.Slice).Elem(), names)
			case *ssa.MakeMap:
				names["$alloc"] = true
				mt := x.Type().Underlying().(*types.Map)
				d, v := g.mapNames(mt)
				names[d] = true
				names[v] = true
			case *ssa.Next:
				names["$iter"] = true
			case ssa.CallInstruction:
				if g.callHasFrameNothing(x) {
					continue
				}
				if f := x.Common().StaticCallee(); f != nil && g.W.isPureLib(f) {
					continue
				}
				if ok := g.callAssignable(x, names); !ok {
					all = true
				}
			}
		}
	}
	if all {
		return nil
	}
	return names
}

func (g *Gen) addTypeTargets(t types.Type, names map[string]bool) {
	if st, ok := t.Underlying().(*types.Struct); ok && !isTimeType(t) && !isOpaqueStruct(t) {
		for i := 0; i < st.NumFields(); i++ {
			n, _, _ := g.fieldMapName(t, i)
			names[n] = true
		}
		return
	}
	es := g.sortOf(t)
	if es.K == KUnit {
		return
	}
	cn, _ := g.cellMapName(es)
	names[cn] = true
}

// addStoreTargets records which heap maps a store through addr may write. false = unknown.
func (g *Gen) addStoreTargets(addr ssa.Value, names map[string]bool) bool {
	switch x := addr.(type) {
	case *ssa.FieldAddr:
		// find outermost struct pointer
		base := x.X
		pt, ok := base.Type().Underlying().(*types.Pointer)
		if !ok {
			return false
		}
		if inner, ok := base.(*ssa.FieldAddr); ok {
			return g.addStoreTargets(inner, names)
		}
		if inner, ok := base.(*ssa.IndexAddr); ok {
			if _, isArr := inner.X.Type().Underlying().(*types.Pointer); isArr {
				return g.addStoreTargets(inner, names)
			}
		}
		if a := g.rootAlloc(base); a != nil && g.isLocal[a] {
			return true
		}
		n, _, _ := g.fieldMapName(pt.Elem(), x.Field)
		names[n] = true
		return true
	case *ssa.IndexAddr:
		switch t := x.X.Type().Underlying().(type) {
		case *types.Slice:
			g.addElemTargets(t.Elem(), names)
			return true
		case *types.Pointer:
			if a := g.rootAlloc(x.X); a != nil && g.isLocal[a] {
				return true
			}
			if fa, ok := x.X.(*ssa.FieldAddr); ok {
				return g.addStoreTargets(fa, names)
			}
			es := g.sortOf(t.Elem())
			cn, _ := g.cellMapName(es)
			names[cn] = true
			return true
		}
	case *ssa.Global:
		names["G_"+mangle(x.Pkg.Pkg.Name()+"_"+x.Name())] = true
		return true
	case *ssa.Alloc:
		if g.isLocal[x] {
			return true
		}
		g.addTypeTargets(x.Type().(*types.Pointer).Elem(), names)
		return true
	default:
		if pt, ok := addr.Type().Underlying().(*types.Pointer); ok {
			// store through a pointer value: whole object
			g.addTypeTargets(pt.Elem(), names)
			if _, isStruct := pt.Elem().Underlying().(*types.Struct); !isStruct {
				g.addElemTargets(pt.Elem(), names)
			}
			return true
		}
	}
	return false
}

func (g *Gen) addElemTargets(et types.Type, names map[string]bool) {
	if st, ok := et.Underlying().(*types.Struct); ok && !isTimeType(et) && !isOpaqueStruct(et) {
		for i := 0; i < st.NumFields(); i++ {
			n, _, _ := g.fieldMapName(et, i)
			names[n] = true
		}
		return
	}
	es := g.sortOf(et)
	n, _ := g.elemMapName(es)
	names[n] = true
}

func (g *Gen) ghostWrittenIn(li *loopInfo, name string) bool {
	if g.spec == nil {
		return false
	}
	for _, r := range g.spec.Calls {
		sets := false
		for _, s := range r.Sets {
			if s.Var == name {
				sets = true
			}
		}
		if !sets {
			continue
		}
		if r.IsStore {
			for b := range li.body {
				for _, in := range b.Instrs {
					if st, ok := in.(*ssa.Store); ok {
						if fa, ok := st.Addr.(*ssa.FieldAddr); ok {
							stt := fa.X.Type().Underlying().(*types.Pointer).Elem()
							tn := types.TypeString(stt, func(p *types.Package) string { return "" })
							fname := stt.Underlying().(*types.Struct).Field(fa.Field).Name()
							if r.Pattern == tn+"."+fname || r.Pattern == "."+fname {
								return true
							}
						}
					}
				}
			}
			continue
		}
		for b := range li.body {
			for _, in := range b.Instrs {
				switch x := in.(type) {
				case *ssa.Defer:
					if g.ruleMatches(r, x.Common(), "defer ") {
						return true
					}
				case *ssa.Go:
					if g.ruleMatches(r, x.Common(), "go ") {
						return true
					}
				case ssa.CallInstruction:
					if g.ruleMatches(r, x.Common(), "") {
						return true
					}
				case *ssa.RunDefers:
					return true
				}
			}
		}
	}
	return false
}

// havocHeap replaces heap variables by fresh versions. names==nil: all known heap vars (and marks a
// generation so that heap vars first touched later are also fresh).
func (g *Gen) havocHeap(st *State, names map[string]bool) { g.havocHeapG(st, names, true) }

func (g *Gen) havocHeapG(st *State, names map[string]bool, ghosts bool) {
	if names == nil {
		for _, k := range sortedKeys(g.heapSorts) {
			if strings.HasPrefix(k, "GG_") && !ghosts {
				continue // global ghosts are changed only through contracts
			}
			if g.isStable(k) {
				continue // `stable` clause: assumed not written by callees / loops without an explicit store
			}
			n := g.fresh("H_" + k)
			g.declare(n, g.heapSorts[k])
			st.heap[k] = n
		}
		// heap vars not yet known: their "entry" version must not be reused after this point.
		g.ctr++
		st.gen = g.ctr
		if ghosts {
			for _, name := range sortedKeys(g.W.globalGhosts) {
				if _, ok := g.heapSorts["GG_"+name]; !ok {
					st.pend["GG_"+name] = g.ctr
				}
			}
		}
		a := g.fresh("alloc")
		g.declare(a, "Int")
		g.assume("true", fmt.Sprintf("(<= %s %s)", st.alloc, a))
		st.alloc = a
		return
	}
	for _, k := range sortedKeys(names) {
		if k == "$alloc" {
			a := g.fresh("alloc")
			g.declare(a, "Int")
			g.assume("true", fmt.Sprintf("(<= %s %s)", st.alloc, a))
			st.alloc = a
			continue
		}
		if strings.HasPrefix(k, "$") {
			continue
		}
		srt, ok := g.heapSorts[k]
		if !ok {
			continue // never read so far: will be created lazily; see heapGetGen
		}
		n := g.fresh("H_" + k)
		g.declare(n, srt)
		st.heap[k] = n
	}
	// remember pending havocs for heap vars not yet declared
	for _, k := range sortedKeys(names) {
		if _, ok := g.heapSorts[k]; !ok && !strings.HasPrefix(k, "$") {
			g.ctr++
			if st.pend == nil {
				st.pend = map[string]int{}
			}
			st.pend[k] = g.ctr
		}
	}
}

func (g *Gen) closeLoop(li *loopInfo, latch *ssa.BasicBlock, st *State) {
	g.curPos = li.stmtPos
	cond := g.edgeCond(latch, li.header)
	env := g.specEnv(st, g.entry)
	env.useLocals = true
	env.atLoop = li
	for _, c := range li.spec.Invariants {
		g.oblige(c.Label+".preserve", "A", "loop invariant preserved: "+c.Src, cond, env.evalBool(c.E), false)
	}
	if g.spec != nil && g.spec.HasAssigns && !g.spec.TrustedFrame {
		for _, k := range sortedKeys(st.heap) {
			if goal, ok := g.frameGoal(k, st.heap[k]); ok {
				g.oblige(fmt.Sprintf("inv.%d.frame.%s.preserve", li.ordinal, k), "A", "frame invariant preserved by the loop body for "+k, cond, goal, false)
			}
		}
	}
	if li.spec.Decreases != nil && li.dec0 != "" {
		m := env.eval(li.spec.Decreases.E)
		var goal string
		if m.S.K == KBV {
			goal = fmt.Sprintf("(and (bvslt %s %s) (bvsge %s %s))", m.T, li.dec0, li.dec0, bvLit(big.NewInt(0), m.S.W))
		} else {
			goal = fmt.Sprintf("(and (< %s %s) (>= %s 0))", m.T, li.dec0, li.dec0)
		}
		g.oblige(li.spec.Decreases.Label, "A", "loop variant decreases and is bounded: "+li.spec.Decreases.Src, cond, goal, false)
	} else {
		g.note(fmt.Sprintf("termination of loop %d in %s not verified (no decreases clause)", li.ordinal, g.key))
	}
}

// ---------------------------------------------------------------- block execution

func (g *Gen) execBlock(b *ssa.BasicBlock, st *State) {
	g.curBlock = b
	for _, in := range b.Instrs {
		if p := in.Pos(); p.IsValid() {
			g.curPos = p
		}
		if g.only != nil && !g.only[in] {
			switch in.(type) {
			case *ssa.Return, *ssa.If, *ssa.Jump:
			default:
				continue // init@var: slice: not part of the variable's initializer
			}
		}
		g.execInstr(in, st)
	}
	g.exit[b] = st
	// back edges
	for _, s := range b.Succs {
		if li := g.loops[s]; li != nil && s.Dominates(b) {
			g.closeLoop(li, b, st)
		}
	}
}

func (g *Gen) setVal(v ssa.Value, x Val) {
	if x.S != nil && x.S.K != KUnit {
		x.T = g.define(mangle(v.Name()), x.S, x.T)
	}
	if x.G == nil {
		x.G = v.Type()
	}
	g.vals[v] = x
}

func (g *Gen) addrOf(v ssa.Value, st *State) *Addr {
	if a, ok := g.addrs[v]; ok {
		return a
	}
	switch x := v.(type) {
	case *ssa.Global:
		return &Addr{rk: rGlobal, global: x, typ: x.Type().(*types.Pointer).Elem(), text: x.Name()}
	case *ssa.Convert:
		// *(*U)(unsafe.Pointer(&t)): an unsafe re-view of the same 8 bytes
		if in, ok := x.X.(*ssa.Convert); ok {
			if _, isPtr := in.X.Type().Underlying().(*types.Pointer); isPtr {
				if tp, ok := x.Type().Underlying().(*types.Pointer); ok {
					base := *g.addrOf(in.X, st)
					base.reinterp = tp.Elem()
					return &base
				}
			}
		}
	}
	pt, ok := v.Type().Underlying().(*types.Pointer)
	if !ok {
		g.errorf("address of non-pointer %s", v.Name())
		return &Addr{rk: rPtr, ptr: g.freshVal("badaddr", v.Type(), nil, "true"), typ: types.Typ[types.Int]}
	}
	return &Addr{rk: rPtr, ptr: g.val(v, st), typ: pt.Elem(), text: g.textOf(v)}
}

// textOf: canonical source-like rendering of a value (for `on` filters in call rules).
func (g *Gen) textOf(v ssa.Value) string {
	switch x := v.(type) {
	case *ssa.Parameter:
		return x.Name()
	case *ssa.FreeVar:
		return x.Name()
	case *ssa.Alloc:
		return x.Comment
	case *ssa.Global:
		return x.Name()
	case *ssa.UnOp:
		if x.Op == token.MUL {
			return g.textOf(x.X)
		}
	case *ssa.FieldAddr:
		st := x.X.Type().Underlying().(*types.Pointer).Elem().Underlying().(*types.Struct)
		return g.textOf(x.X) + "." + st.Field(x.Field).Name()
	case *ssa.Field:
		st := x.X.Type().Underlying().(*types.Struct)
		return g.textOf(x.X) + "." + st.Field(x.Field).Name()
	case *ssa.IndexAddr:
		return g.textOf(x.X) + "[" + g.textOf(x.Index) + "]"
	case *ssa.Const:
		if x.Value != nil {
			return x.Value.String()
		}
		return "nil"
	case *ssa.ChangeType:
		return g.textOf(x.X)
	case *ssa.MakeInterface:
		return g.textOf(x.X)
	case *ssa.Call:
		if c := x.Call.StaticCallee(); c != nil {
			return c.Name() + "()"
		}
	}
	return v.Name()
}

func (g *Gen) execInstr(in ssa.Instruction, st *State) {
	switch x := in.(type) {
	case *ssa.DebugRef:
	case *ssa.Alloc:
		et := x.Type().(*types.Pointer).Elem()
		if g.isLocal[x] {
			st.locals[x] = g.zero(et)
			g.addrs[x] = &Addr{rk: rLocal, local: x, typ: et, text: x.Comment}
			return
		}
		id := g.newObj(st)
		p := Val{T: fmt.Sprintf("(pobj %s)", id), S: sPtr, G: x.Type()}
		a := &Addr{rk: rPtr, ptr: p, typ: et, text: x.Comment}
		g.addrs[x] = a
		g.storeAddr(a, g.zero(et), st)
	case *ssa.Store:
		a := g.addrOf(x.Addr, st)
		v := g.val(x.Val, st)
		g.checkStoreRules(x, a, v, st)
		g.nilCheck(a, st, "store")
		g.storeAddr(a, v, st)
	case *ssa.UnOp:
		g.execUnOp(x, st)
	case *ssa.BinOp:
		g.setVal(x, g.binop(x.Op, g.val(x.X, st), g.val(x.Y, st), x.X.Type(), x.Type(), st))
	case *ssa.FieldAddr:
		base := g.addrOf(x.X, st)
		stt := x.X.Type().Underlying().(*types.Pointer).Elem()
		fname := stt.Underlying().(*types.Struct).Field(x.Field).Name()
		g.addrs[x] = base.extend(step{k: stField, field: x.Field, typ: stt}, base.text+"."+fname)
	case *ssa.Field:
		v := g.val(x.X, st)
		g.setVal(x, g.project(v, []step{{k: stField, field: x.Field}}))
	case *ssa.IndexAddr:
		idx := g.val(x.Index, st)
		idx = g.toIdx(idx, x.Index.Type())
		switch t := x.X.Type().Underlying().(type) {
		case *types.Slice:
			s := g.val(x.X, st)
			g.boundsCheck(idx.T, fmt.Sprintf("(sl.len %s)", s.T), st, "index "+g.textOf(x.X)+"["+g.textOf(x.Index)+"]")
			abs := g.defineRaw("ix", g.idxSort().SMT(), g.elemIdx(fmt.Sprintf("(sl.off %s)", s.T), idx.T))
			g.addrs[x] = &Addr{rk: rElem, arr: fmt.Sprintf("(sl.arr %s)", s.T), idx: abs, typ: t.Elem(), text: g.textOf(x.X) + "[" + g.textOf(x.Index) + "]"}
		case *types.Pointer:
			at := t.Elem().Underlying().(*types.Array)
			base := g.addrOf(x.X, st)
			g.boundsCheck(idx.T, g.idxLit(at.Len()), st, "array index "+g.textOf(x.X)+"["+g.textOf(x.Index)+"]")
			g.addrs[x] = base.extend(step{k: stIndex, idx: idx, typ: t.Elem()}, base.text+"["+g.textOf(x.Index)+"]")
		default:
			g.errorf("IndexAddr on %s", x.X.Type())
		}
	case *ssa.Index:
		idx := g.toIdx(g.val(x.Index, st), x.Index.Type())
		c := g.val(x.X, st)
		switch t := x.X.Type().Underlying().(type) {
		case *types.Array:
			g.boundsCheck(idx.T, g.idxLit(t.Len()), st, "array index")
			g.setVal(x, Val{T: fmt.Sprintf("(select %s %s)", c.T, idx.T), S: g.sortOf(t.Elem()), G: t.Elem()})
		case *types.Basic: // string
			g.boundsCheck(idx.T, fmt.Sprintf("(gstr.len %s)", c.T), st, "string index "+g.textOf(x.X)+"["+g.textOf(x.Index)+"]")
			r := Val{T: fmt.Sprintf("(gstr.at %s %s)", c.T, idx.T), S: g.byteSort(), G: types.Typ[types.Uint8]}
			g.setVal(x, r)
			g.assume("true", g.wfFact(g.vals[x], nil))
		default:
			g.errorf("Index on %s", x.X.Type())
		}
	case *ssa.Slice:
		g.execSlice(x, st)
	case *ssa.Lookup:
		g.execLookup(x, st)
	case *ssa.MapUpdate:
		g.execMapUpdate(x, st)
	case *ssa.MakeSlice:
		g.execMakeSlice(x, st)
	case *ssa.MakeMap:
		id := g.newObj(st)
		mt := x.Type().Underlying().(*types.Map)
		dn, vn := g.mapNames(mt)
		ds, vs := g.mapSorts(mt)
		hd := g.heapGet(st, dn, ds)
		g.heapGet(st, vn, vs)
		ks := g.sortOf(mt.Key())
		st.heap[dn] = g.defineRaw("h", ds, fmt.Sprintf("(store %s %s ((as const (Array %s Bool)) false))", hd, id, ks.SMT()))
		g.setVal(x, Val{T: id, S: sRef, G: x.Type()})
		g.assume(st.reach, fmt.Sprintf("(= %s 0)", mapLenTerm(ks, st.heap[dn], id)))
	case *ssa.MakeInterface:
		v := g.val(x.X, st)
		g.setVal(x, g.makeIface(v, x.X.Type()))
	case *ssa.MakeClosure:
		n := g.fresh("clo")
		g.declare(n, "Int")
		g.assume("true", fmt.Sprintf("(> %s 0)", n))
		g.setVal(x, Val{T: n, S: sRef, G: x.Type()})
	case *ssa.ChangeType:
		v := g.val(x.X, st)
		v.G = x.Type()
		g.setVal(x, v)
	case *ssa.ChangeInterface:
		v := g.val(x.X, st)
		v.G = x.Type()
		g.setVal(x, v)
	case *ssa.Convert:
		g.setVal(x, g.convert(g.val(x.X, st), x.X.Type(), x.Type(), st))
	case *ssa.TypeAssert:
		g.execTypeAssert(x, st)
	case *ssa.Extract:
		t := g.tuples[x.Tuple]
		if x.Index < len(t) {
			g.vals[x] = t[x.Index]
		} else {
			g.errorf("extract from unknown tuple %s", x.Tuple.Name())
			g.vals[x] = g.freshVal("x", x.Type(), st, st.reach)
		}
	case *ssa.Phi:
		g.execPhi(x, st)
	case *ssa.Call:
		g.execCall(x, x.Common(), st, false)
	case *ssa.Defer:
		g.execDefer(x, st)
	case *ssa.Go:
		g.note(fmt.Sprintf("goroutine started in %s: the spawned function is treated as an unknown call at the go statement (arbitrary heap effect there; later interleavings are not modelled - sequential semantics)", g.key))
		m := g.callRulesPre(x.Common(), st, "go ")
		fn := false
		for _, r := range m {
			if r.FrameNothing {
				fn = true
			}
		}
		if !fn {
			g.havocForCall(x.Common(), st)
		}
		g.callRulesPost(m, x.Common(), nil, st, "true")
	case *ssa.MakeChan:
		g.note("channel created in " + g.key + ": channels are opaque values; receives yield arbitrary values, sends and close have no effect, blocking is not modelled")
		g.setVal(x, g.freshVal("ch", x.Type(), st, st.reach))
	case *ssa.RunDefers:
		g.runDefers(st)
	case *ssa.If, *ssa.Jump:
	case *ssa.Return:
		g.execReturn(x, st)
	case *ssa.Panic:
		if g.spec != nil && g.spec.NoPanic {
			g.oblige("nopanic.explicit", "C", "explicit panic unreachable", st.reach, "false", true)
		}
	case *ssa.Range:
		g.execRange(x, st)
	case *ssa.Next:
		g.execNext(x, st)
	case *ssa.Send:
		g.note("channel send in " + g.key + ": not modelled")
	case *ssa.Select:
		g.note("select in " + g.key + ": not modelled (results unconstrained)")
		var vs []Val
		tt := x.Type().(*types.Tuple)
		for i := 0; i < tt.Len(); i++ {
			vs = append(vs, g.freshVal("sel", tt.At(i).Type(), st, st.reach))
		}
		g.tuples[x] = vs
	case *ssa.SliceToArrayPointer, *ssa.MultiConvert:
		g.errorf("unsupported instruction %T", in)
		if v, ok := in.(ssa.Value); ok {
			g.vals[v] = g.freshVal("u", v.Type(), st, st.reach)
		}
	default:
		g.errorf("unsupported instruction %T", in)
		if v, ok := in.(ssa.Value); ok {
			g.vals[v] = g.freshVal("u", v.Type(), st, st.reach)
		}
	}
}

func (g *Gen) newObj(st *State) string {
	id := g.defineRaw("obj", "Int", fmt.Sprintf("(+ %s 1)", st.alloc))
	st.alloc = id
	return id
}

func (g *Gen) nilCheck(a *Addr, st *State, what string) {
	if a.rk == rPtr && !strings.HasPrefix(a.ptr.T, "(pobj ") {
		g.oblige("nonnil", "C", "nil dereference ("+what+" "+a.text+")", st.reach, sNot(sEq(a.ptr.T, "pnull")), true)
	}
}

func (g *Gen) boundsCheck(idx, n string, st *State, what string) {
	var goal string
	if g.bv {
		goal = fmt.Sprintf("(and (bvsle %s %s) (bvslt %s %s))", g.idxLit(0), idx, idx, n)
	} else {
		goal = fmt.Sprintf("(and (<= 0 %s) (< %s %s))", idx, idx, n)
	}
	g.oblige("bounds", "C", "index in range: "+what, st.reach, goal, true)
}

// elemIdx is the position of element i of a slice with offset off in its backing array.
func (g *Gen) elemIdx(off, i string) string {
	if g.indexFn && !g.bv {
		return fmt.Sprintf("(sl.ix %s %s)", off, i)
	}
	return g.idxAdd(off, i)
}

func (g *Gen) idxAdd(a, b string) string {
	if g.bv {
		return fmt.Sprintf("(bvadd %s %s)", a, b)
	}
	if a == "0" {
		return b
	}
	if b == "0" {
		return a
	}
	return fmt.Sprintf("(+ %s %s)", a, b)
}

func (g *Gen) idxSub(a, b string) string {
	if g.bv {
		return fmt.Sprintf("(bvsub %s %s)", a, b)
	}
	if b == "0" {
		return a
	}
	return fmt.Sprintf("(- %s %s)", a, b)
}

func (g *Gen) idxLe(a, b string) string {
	if g.bv {
		return fmt.Sprintf("(bvsle %s %s)", a, b)
	}
	return fmt.Sprintf("(<= %s %s)", a, b)
}

func (g *Gen) idxLt(a, b string) string {
	if g.bv {
		return fmt.Sprintf("(bvslt %s %s)", a, b)
	}
	return fmt.Sprintf("(< %s %s)", a, b)
}

// toIdx converts an integer value used as an index to the index sort.
func (g *Gen) toIdx(v Val, t types.Type) Val {
	if !g.bv {
		return v
	}
	ii, ok := basicIntInfo(t)
	if !ok || v.S.K != KBV {
		return v
	}
	if ii.w == 64 {
		return Val{T: v.T, S: bvSort(64), G: types.Typ[types.Int]}
	}
	ext := "zero_extend"
	if ii.signed {
		ext = "sign_extend"
	}
	return Val{T: fmt.Sprintf("((_ %s %d) %s)", ext, 64-ii.w, v.T), S: bvSort(64), G: types.Typ[types.Int]}
}

func (g *Gen) execUnOp(x *ssa.UnOp, st *State) {
	switch x.Op {
	case token.MUL:
		a := g.addrOf(x.X, st)
		g.nilCheck(a, st, "load")
		entryRead := g.isEntryRead(a, st)
		v := g.loadAddr(a, st)
		if a.reinterp != nil {
			v = g.reinterpret(v, a.reinterp)
		}
		v.G = x.Type()
		g.setVal(x, v)
		r := g.vals[x]
		g.assume(st.reach, g.wfFact(r, st))
		if entryRead && a.text != "" && len(g.inputReads) < 200 && r.S.K != KUnit {
			g.inputReads = append(g.inputReads, inputRead{Path: a.text, Term: r.T, Type: x.Type()})
			g.modelVars = append(g.modelVars, ModelVar{Name: "@" + a.text, Term: r.T, Sort: r.S.SMT()})
		}
	case token.NOT:
		v := g.val(x.X, st)
		g.setVal(x, Val{T: sNot(v.T), S: sBool, G: x.Type()})
	case token.SUB:
		v := g.val(x.X, st)
		switch v.S.K {
		case KInt:
			r := Val{T: fmt.Sprintf("(- %s)", v.T), S: sInt, G: x.Type()}
			g.overflowCheck(r, x.Type(), st, "negation")
			g.setVal(x, r)
		case KBV:
			g.setVal(x, Val{T: fmt.Sprintf("(bvneg %s)", v.T), S: v.S, G: x.Type()})
		case KF64, KF32:
			g.setVal(x, Val{T: fmt.Sprintf("(fp.neg %s)", v.T), S: v.S, G: x.Type()})
		}
	case token.XOR:
		v := g.val(x.X, st)
		if v.S.K == KBV {
			g.setVal(x, Val{T: fmt.Sprintf("(bvnot %s)", v.T), S: v.S, G: x.Type()})
		} else {
			ii, _ := basicIntInfo(x.Type())
			if ii.signed {
				g.setVal(x, Val{T: fmt.Sprintf("(- (- %s) 1)", v.T), S: sInt, G: x.Type()})
			} else {
				g.setVal(x, Val{T: fmt.Sprintf("(- %s %s)", intLit(ii.max()), v.T), S: sInt, G: x.Type()})
			}
		}
	case token.ARROW:
		g.note("channel receive in " + g.key + ": value unconstrained")
		if tt, ok := x.Type().(*types.Tuple); ok {
			var vs []Val
			for i := 0; i < tt.Len(); i++ {
				vs = append(vs, g.freshVal("rcv", tt.At(i).Type(), st, st.reach))
			}
			g.tuples[x] = vs
		} else {
			g.vals[x] = g.freshVal("rcv", x.Type(), st, st.reach)
		}
	default:
		g.errorf("unsupported unop %s", x.Op)
	}
}

func (g *Gen) overflowCheck(r Val, t types.Type, st *State, what string) {
	if g.bv {
		return
	}
	ii, ok := basicIntInfo(t)
	if !ok {
		return
	}
	goal := fmt.Sprintf("(and (<= %s %s) (<= %s %s))", intLit(ii.min()), r.T, r.T, intLit(ii.max()))
	g.oblige("nooverflow", "C", "no wraparound in "+what, st.reach, goal, true)
}

func (g *Gen) execPhi(x *ssa.Phi, st *State) {
	b := x.Block()
	var r string
	s := g.sortOf(x.Type())
	first := true
	for i := len(b.Preds) - 1; i >= 0; i-- {
		p := b.Preds[i]
		if g.exit[p] == nil {
			continue
		}
		v := g.val(x.Edges[i], g.exit[p])
		if first {
			r = v.T
			first = false
			continue
		}
		r = sIte(g.edgeCond(p, b), v.T, r)
	}
	if first {
		g.vals[x] = g.freshVal("phi", x.Type(), st, st.reach)
		return
	}
	g.setVal(x, Val{T: r, S: s, G: x.Type()})
}

func (g *Gen) execSlice(x *ssa.Slice, st *State) {
	var lo, hi, mx string
	if x.Low != nil {
		lo = g.toIdx(g.val(x.Low, st), x.Low.Type()).T
	} else {
		lo = g.idxLit(0)
	}
	switch t := x.X.Type().Underlying().(type) {
	case *types.Slice:
		s := g.val(x.X, st)
		cp := fmt.Sprintf("(sl.cap %s)", s.T)
		if x.High != nil {
			hi = g.toIdx(g.val(x.High, st), x.High.Type()).T
		} else {
			hi = fmt.Sprintf("(sl.len %s)", s.T)
		}
		if x.Max != nil {
			mx = g.toIdx(g.val(x.Max, st), x.Max.Type()).T
		} else {
			mx = cp
		}
		goal := sAnd(g.idxLe(g.idxLit(0), lo), g.idxLe(lo, hi), g.idxLe(hi, mx), g.idxLe(mx, cp))
		g.oblige("bounds", "C", "slice bounds: "+g.textOf(x.X)+"[lo:hi]", st.reach, goal, true)
		r := fmt.Sprintf("(mk-slice (sl.arr %s) %s %s %s)", s.T, g.idxAdd(fmt.Sprintf("(sl.off %s)", s.T), lo), g.idxSub(hi, lo), g.idxSub(mx, lo))
		g.setVal(x, Val{T: r, S: sSlice, G: x.Type()})
	case *types.Basic: // string
		s := g.val(x.X, st)
		ln := fmt.Sprintf("(gstr.len %s)", s.T)
		if x.High != nil {
			hi = g.toIdx(g.val(x.High, st), x.High.Type()).T
		} else {
			hi = ln
		}
		goal := sAnd(g.idxLe(g.idxLit(0), lo), g.idxLe(lo, hi), g.idxLe(hi, ln))
		g.oblige("bounds", "C", "string slice bounds: "+g.textOf(x.X)+"[lo:hi]", st.reach, goal, true)
		g.needStrSub()
		r := Val{T: fmt.Sprintf("(gstr.sub %s %s %s)", s.T, lo, hi), S: sStr, G: x.Type()}
		g.setVal(x, r)
		rv := g.vals[x]
		// facts: length and characters
		g.assume(st.reach, sImp(goal, fmt.Sprintf("(= (gstr.len %s) %s)", rv.T, g.idxSub(hi, lo))))
		g.assume("true", fmt.Sprintf("(forall ((k %s)) (! (=> (and %s %s) (= (gstr.at %s k) (gstr.at %s %s))) :pattern ((gstr.at %s k))))",
			g.idxSort().SMT(), g.idxLe(g.idxLit(0), "k"), g.idxLt("k", g.idxSub(hi, lo)), rv.T, s.T, g.idxAdd(lo, "k"), rv.T))
		g.assume("true", sImp(sAnd(sEq(lo, g.idxLit(0)), sEq(hi, ln)), sEq(rv.T, s.T)))
	case *types.Pointer: // *array
		at := t.Elem().Underlying().(*types.Array)
		n := g.idxLit(at.Len())
		if x.High != nil {
			hi = g.toIdx(g.val(x.High, st), x.High.Type()).T
		} else {
			hi = n
		}
		goal := sAnd(g.idxLe(g.idxLit(0), lo), g.idxLe(lo, hi), g.idxLe(hi, n))
		g.oblige("bounds", "C", "array slice bounds", st.reach, goal, true)
		// slicing an array: the array must become a backing array. Local arrays are copied into a
		// fresh backing array and the local is no longer authoritative: supported only when the
		// local is not written afterwards through its own name (checked syntactically: reported).
		base := g.addrOf(x.X, st)
		cur := g.loadAddr(base, st)
		id := g.newObj(st)
		es := g.sortOf(at.Elem())
		if _, isStruct := at.Elem().Underlying().(*types.Struct); isStruct && !isTimeType(at.Elem()) && !isOpaqueStruct(at.Elem()) && cur.S != nil && cur.S.K == KArray && at.Len() <= 16 {
			// elements of struct type live in the field maps at (pelem id k): copy them there
			for k := int64(0); k < at.Len(); k++ {
				ev := Val{T: fmt.Sprintf("(select %s %s)", cur.T, g.idxLit(k)), S: es, G: at.Elem()}
				p := Val{T: fmt.Sprintf("(pelem %s %s)", id, g.idxLit(k)), S: sPtr}
				g.storePtr(p, at.Elem(), nil, ev, st)
			}
		} else {
			name, sort := g.elemMapName(es)
			h := g.heapGet(st, name, sort)
			st.heap[name] = g.defineRaw("h", sort, fmt.Sprintf("(store %s %s %s)", h, id, cur.T))
		}
		g.note(fmt.Sprintf("array %s sliced in %s: modelled as a copy into a fresh backing array (later writes through the array name are not reflected)", base.text, g.key))
		r := fmt.Sprintf("(mk-slice %s %s %s %s)", id, lo, g.idxSub(hi, lo), g.idxSub(n, lo))
		g.setVal(x, Val{T: r, S: sSlice, G: x.Type()})
	default:
		g.errorf("Slice on %s", x.X.Type())
	}
}

func (g *Gen) needStrSub() {
	g.declareFun("gstr.sub", fmt.Sprintf("(Str %s %s) Str", g.idxSort().SMT(), g.idxSort().SMT()))
}

func (g *Gen) execMakeSlice(x *ssa.MakeSlice, st *State) {
	ln := g.toIdx(g.val(x.Len, st), x.Len.Type()).T
	cp := g.toIdx(g.val(x.Cap, st), x.Cap.Type()).T
	g.oblige("bounds", "C", "make: 0 <= len <= cap", st.reach, sAnd(g.idxLe(g.idxLit(0), ln), g.idxLe(ln, cp)), true)
	id := g.newObj(st)
	et := x.Type().Underlying().(*types.Slice).Elem()
	g.zeroBacking(id, et, st)
	g.setVal(x, Val{T: fmt.Sprintf("(mk-slice %s %s %s %s)", id, g.idxLit(0), ln, cp), S: sSlice, G: x.Type()})
}

// zeroBacking initialises backing array id with zero values of type et.
func (g *Gen) zeroBacking(id string, et types.Type, st *State) {
	if stt, ok := et.Underlying().(*types.Struct); ok && !isTimeType(et) && !isOpaqueStruct(et) {
		for i := 0; i < stt.NumFields(); i++ {
			name, sort, fs := g.fieldMapName(et, i)
			h := g.heapGet(st, name, sort)
			n := g.fresh("H_" + name)
			g.declare(n, sort)
			z := g.zero(stt.Field(i).Type()).T
			g.assume("true", fmt.Sprintf("(forall ((p Ptr)) (! (= (select %s p) (ite (and (is-pelem p) (= (pelem.arr p) %s)) %s (select %s p))) :pattern ((select %s p))))", n, id, z, h, n))
			_ = fs
			st.heap[name] = n
		}
		return
	}
	es := g.sortOf(et)
	if es.K == KUnit {
		return
	}
	name, sort := g.elemMapName(es)
	h := g.heapGet(st, name, sort)
	st.heap[name] = g.defineRaw("h", sort, fmt.Sprintf("(store %s %s ((as const (Array %s %s)) %s))", h, id, g.idxSort().SMT(), es.SMT(), g.zero(et).T))
}

// ---------------------------------------------------------------- maps

func (g *Gen) mapNames(mt *types.Map) (string, string) {
	ks, vs := g.sortOf(mt.Key()), g.sortOf(mt.Elem())
	k := ks.Key() + "_" + vs.Key()
	return "MD_" + k, "MV_" + k
}

// mapLenFn: the length function of maps with this key sort (one function symbol per key sort)
func mapLenFn(ks *Sort) string {
	if ks.SMT() == "Str" {
		return "map.len"
	}
	return "map.len." + ks.Key()
}

// mapLenTerm: the length of map `ref` in key-set heap `heap`.
func mapLenTerm(ks *Sort, heap, ref string) string {
	return fmt.Sprintf("(%s (select %s %s))", mapLenFn(ks), heap, ref)
}

func (g *Gen) mapSorts(mt *types.Map) (string, string) {
	ks, vs := g.sortOf(mt.Key()), g.sortOf(mt.Elem())
	// the length of a map is a function of ITS key set only: writing another map of the same key type leaves it alone
	// (and it is never negative: the declared function is clamped)
	if fn := mapLenFn(ks); !g.declared[fn] {
		g.declareFun(fn+".raw", fmt.Sprintf("((Array %s Bool)) Int", ks.SMT()))
		g.declared[fn] = true
		g.decls = append(g.decls, fmt.Sprintf("(define-fun %s ((m (Array %s Bool))) Int (ite (>= (%s.raw m) 0) (%s.raw m) 0))", fn, ks.SMT(), fn, fn))
	}
	return fmt.Sprintf("(Array Int (Array %s Bool))", ks.SMT()), fmt.Sprintf("(Array Int (Array %s %s))", ks.SMT(), vs.SMT())
}

func (g *Gen) execLookup(x *ssa.Lookup, st *State) {
	switch t := x.X.Type().Underlying().(type) {
	case *types.Map:
		m := g.val(x.X, st)
		k := g.val(x.Index, st)
		dn, vn := g.mapNames(t)
		ds, vs := g.mapSorts(t)
		hd, hv := g.heapGet(st, dn, ds), g.heapGet(st, vn, vs)
		in := fmt.Sprintf("(select (select %s %s) %s)", hd, m.T, k.T)
		in = sAnd(sNot(sEq(m.T, "0")), in)
		ev := g.sortOf(t.Elem())
		val := Val{T: sIte(in, fmt.Sprintf("(select (select %s %s) %s)", hv, m.T, k.T), g.zero(t.Elem()).T), S: ev, G: t.Elem()}
		val.T = g.define(mangle(x.Name()), ev, val.T)
		g.assume(st.reach, g.wfFact(val, st))
		if x.CommaOk {
			g.tuples[x] = []Val{val, {T: g.defineRaw("ok", "Bool", in), S: sBool, G: types.Typ[types.Bool]}}
		} else {
			g.vals[x] = val
		}
	case *types.Basic:
		s := g.val(x.X, st)
		idx := g.toIdx(g.val(x.Index, st), x.Index.Type())
		g.boundsCheck(idx.T, fmt.Sprintf("(gstr.len %s)", s.T), st, "string index")
		g.setVal(x, Val{T: fmt.Sprintf("(gstr.at %s %s)", s.T, idx.T), S: g.byteSort(), G: types.Typ[types.Uint8]})
	default:
		g.errorf("Lookup on %s", x.X.Type())
	}
}

func (g *Gen) execMapUpdate(x *ssa.MapUpdate, st *State) {
	t := x.Map.Type().Underlying().(*types.Map)
	m := g.val(x.Map, st)
	k := g.val(x.Key, st)
	v := g.val(x.Value, st)
	dn, vn := g.mapNames(t)
	ds, vs := g.mapSorts(t)
	hd, hv := g.heapGet(st, dn, ds), g.heapGet(st, vn, vs)
	g.oblige("nonnil", "C", "assignment to entry in nil map", st.reach, sNot(sEq(m.T, "0")), true)
	g.checkMapStoreRules(x, t, m, k, v, hd, hv, st)
	nd := g.defineRaw("h", ds, fmt.Sprintf("(store %[1]s %[2]s (store (select %[1]s %[2]s) %[3]s true))", hd, m.T, k.T))
	st.heap[dn] = nd
	st.heap[vn] = g.defineRaw("h", vs, fmt.Sprintf("(store %[1]s %[2]s (store (select %[1]s %[2]s) %[3]s %[4]s))", hv, m.T, k.T, v.T))
	// length fact
	was := fmt.Sprintf("(select (select %s %s) %s)", hd, m.T, k.T)
	ml := mapLenFn(g.sortOf(t.Key()))
	_ = ml
	mks := g.sortOf(t.Key())
	g.assume(st.reach, fmt.Sprintf("(= %s (ite %s %s (+ %s 1)))", mapLenTerm(mks, nd, m.T), was, mapLenTerm(mks, hd, m.T), mapLenTerm(mks, hd, m.T)))
}

// checkMapStoreRules: protocol rules on map assignments, written `store map[K]V` (the map's type without package
// qualifiers) or `store <source text of the map expression>`. In the rule: key, val (what is written), had (the key
// was present before), prev (the value it had; the zero value if it was absent).
func (g *Gen) checkMapStoreRules(x *ssa.MapUpdate, t *types.Map, m, k, v Val, hd, hv string, st *State) {
	if g.spec == nil {
		return
	}
	tn := types.TypeString(x.Map.Type(), func(p *types.Package) string { return "" })
	txt := g.textOf(x.Map)
	for _, r := range g.spec.Calls {
		if !r.IsStore || (r.Pattern != tn && r.Pattern != txt) {
			continue
		}
		r.Matched++
		env := g.specEnv(st, g.entry)
		env.useLocals = true
		kv, vv := k, v
		kv.G, vv.G = t.Key(), t.Elem()
		env.vars["key"] = kv
		env.vars["val"] = vv
		had := sAnd(sNot(sEq(m.T, "0")), fmt.Sprintf("(select (select %s %s) %s)", hd, m.T, k.T))
		env.vars["had"] = Val{T: had, S: sBool, G: types.Typ[types.Bool]}
		ev := g.sortOf(t.Elem())
		env.vars["prev"] = Val{T: sIte(had, fmt.Sprintf("(select (select %s %s) %s)", hv, m.T, k.T), g.zero(t.Elem()).T), S: ev, G: t.Elem()}
		for _, cl := range r.Requires {
			g.oblige(cl.Label, "B", fmt.Sprintf("at assignment to %s[...]: %s", txt, cl.Src), st.reach, env.evalBool(cl.E), false)
		}
		for _, s := range r.Sets {
			old, ok := st.ghosts[s.Var]
			if !ok {
				g.errorf("set of undeclared ghost %s", s.Var)
				continue
			}
			nv := g.coerce(env.eval(s.E), old.S, old.G)
			st.ghosts[s.Var] = Val{T: g.define("gh", old.S, nv.T), S: old.S, G: old.G}
		}
	}
}

// ---------------------------------------------------------------- interfaces

func (g *Gen) typeID(t types.Type) int {
	k := types.TypeString(t, nil)
	if id, ok := g.typeIDs[k]; ok {
		return id
	}
	id := len(g.typeIDs) + 1
	g.typeIDs[k] = id
	return id
}

func (g *Gen) makeIface(v Val, t types.Type) Val {
	if _, ok := t.Underlying().(*types.Interface); ok {
		return Val{T: v.T, S: sIface}
	}
	id := g.typeID(t)
	s := g.sortOf(t)
	box := "box_" + s.Key()
	unbox := "unbox_" + s.Key()
	if s.K == KUnit {
		return Val{T: fmt.Sprintf("(mk-iface %d 1)", id), S: sIface}
	}
	g.declareFun(box, fmt.Sprintf("(%s) Int", s.SMT()))
	g.declareFun(unbox, fmt.Sprintf("(Int) %s", s.SMT()))
	g.assume("true", fmt.Sprintf("(= (%s (%s %s)) %s)", unbox, box, v.T, v.T))
	return Val{T: fmt.Sprintf("(mk-iface %d (%s %s))", id, box, v.T), S: sIface}
}

func (g *Gen) execTypeAssert(x *ssa.TypeAssert, st *State) {
	v := g.val(x.X, st)
	if _, ok := x.AssertedType.Underlying().(*types.Interface); ok {
		// interface-to-interface: succeeds iff dynamic type implements; abstract as non-nil ⇒ unknown
		okT := g.fresh("impl")
		g.declare(okT, "Bool")
		g.assume("true", sImp(okT, sNot(sEq(v.T, "(mk-iface 0 0)"))))
		if x.CommaOk {
			g.tuples[x] = []Val{{T: sIte(okT, v.T, "(mk-iface 0 0)"), S: sIface, G: x.AssertedType}, {T: okT, S: sBool, G: types.Typ[types.Bool]}}
		} else {
			if g.spec != nil && g.spec.NoPanic {
				g.oblige("nopanic.assert", "C", "type assertion succeeds", st.reach, okT, true)
			}
			g.vals[x] = Val{T: v.T, S: sIface, G: x.AssertedType}
		}
		return
	}
	id := g.typeID(x.AssertedType)
	s := g.sortOf(x.AssertedType)
	okT := fmt.Sprintf("(= (if.tag %s) %d)", v.T, id)
	var val Val
	if s.K == KUnit {
		val = Val{T: "0", S: s, G: x.AssertedType}
	} else {
		unbox := "unbox_" + s.Key()
		box := "box_" + s.Key()
		g.declareFun(box, fmt.Sprintf("(%s) Int", s.SMT()))
		g.declareFun(unbox, fmt.Sprintf("(Int) %s", s.SMT()))
		val = Val{T: fmt.Sprintf("(%s (if.val %s))", unbox, v.T), S: s, G: x.AssertedType}
		// an interface value of this dynamic type carries the box of its payload: boxing what was unboxed gives
		// the same interface value again (without this, `e.(*T)` stored back into an interface field is not equal
		// to e)
		g.assume(st.reach, sImp(okT, fmt.Sprintf("(= (%s (%s (if.val %s))) (if.val %s))", box, unbox, v.T, v.T)))
	}
	if x.CommaOk {
		val.T = sIte(okT, val.T, g.zero(x.AssertedType).T)
		val.T = g.define(mangle(x.Name()), s, val.T)
		g.assume(st.reach, g.wfFact(val, st))
		g.tuples[x] = []Val{val, {T: g.defineRaw("ok", "Bool", okT), S: sBool, G: types.Typ[types.Bool]}}
	} else {
		if g.spec != nil && g.spec.NoPanic {
			g.oblige("nopanic.assert", "C", "type assertion succeeds", st.reach, okT, true)
		}
		g.setVal(x, val)
		g.assume(st.reach, g.wfFact(g.vals[x], st))
	}
}

// ---------------------------------------------------------------- range over maps

func (g *Gen) execRange(x *ssa.Range, st *State) {
	if mt, ok := x.X.Type().Underlying().(*types.Map); ok {
		ks := g.sortOf(mt.Key())
		n := g.fresh("visited")
		g.declare(n, fmt.Sprintf("(Array %s Bool)", ks.SMT()))
		g.assume("true", fmt.Sprintf("(= %s ((as const (Array %s Bool)) false))", n, ks.SMT()))
		g.rangeVisited[x] = n
		st.ghosts["$visited:"+x.Name()] = Val{T: n, S: &Sort{K: KArray, Idx: ks, Elem: sBool}}
	}
	g.vals[x] = Val{T: "0", S: sRef, G: x.Type()}
}

func (g *Gen) execNext(x *ssa.Next, st *State) {
	rng, _ := x.Iter.(*ssa.Range)
	tt := x.Type().(*types.Tuple)
	okV := g.freshVal("more", types.Typ[types.Bool], nil, "true")
	if x.IsString || rng == nil {
		g.note("range over string in " + g.key + ": iteration values unconstrained")
		vs := []Val{okV}
		for i := 1; i < tt.Len(); i++ {
			vs = append(vs, g.freshVal("it", tt.At(i).Type(), st, st.reach))
		}
		g.tuples[x] = vs
		return
	}
	mt := rng.X.Type().Underlying().(*types.Map)
	m := g.val(rng.X, st)
	dn, vn := g.mapNames(mt)
	ds, vs := g.mapSorts(mt)
	hd, hv := g.heapGet(st, dn, ds), g.heapGet(st, vn, vs)
	gk := "$visited:" + rng.Name()
	vis := st.ghosts[gk]
	k := g.freshVal("key", mt.Key(), st, st.reach)
	ksort := g.sortOf(mt.Key())
	// ok ⇒ key in domain and not visited ; !ok ⇒ every domain key visited
	g.assume(st.reach, sImp(okV.T, sAnd(sNot(sEq(m.T, "0")), fmt.Sprintf("(select (select %s %s) %s)", hd, m.T, k.T), sNot(fmt.Sprintf("(select %s %s)", vis.T, k.T)))))
	g.assume(st.reach, sImp(sNot(okV.T), fmt.Sprintf("(forall ((kk %s)) (=> (and (not (= %s 0)) (select (select %s %s) kk)) (select %s kk)))", ksort.SMT(), m.T, hd, m.T, vis.T)))
	nv := g.defineRaw("vis", vis.S.SMT(), sIte(okV.T, fmt.Sprintf("(store %s %s true)", vis.T, k.T), vis.T))
	st.ghosts[gk] = Val{T: nv, S: vis.S}
	v := Val{T: fmt.Sprintf("(select (select %s %s) %s)", hv, m.T, k.T), S: g.sortOf(mt.Elem()), G: mt.Elem()}
	v.T = g.define("mv", v.S, v.T)
	g.assume(st.reach, g.wfFact(v, st))
	g.tuples[x] = []Val{okV, k, v}
}

// ---------------------------------------------------------------- return

func (g *Gen) execReturn(x *ssa.Return, st *State) {
	g.retCount++
	g.cover = append(g.cover, st.reach)
	var results []Val
	for _, r := range x.Results {
		results = append(results, g.val(r, st))
	}
	ri := len(g.rets)
	g.rets = append(g.rets, retRecord{Reach: st.reach, Vals: results})
	g.modelVars = append(g.modelVars, ModelVar{Name: fmt.Sprintf("@reach%d", ri), Term: st.reach, Sort: "Bool"})
	for vi, rv := range results {
		if rv.S != nil && rv.S.K != KUnit {
			g.modelVars = append(g.modelVars, ModelVar{Name: fmt.Sprintf("@ret%d_%d", ri, vi), Term: rv.T, Sort: rv.S.SMT()})
		}
	}
	env := g.specEnv(st, g.entry)
	env.results = results
	env.atReturn = true
	for _, c := range g.spec.Ensures {
		goal := env.evalBool(c.E)
		g.oblige(c.Label, "A", "postcondition: "+c.Src, st.reach, goal, false)
		if ex, ok := g.W.kfExcept[g.key+"#"+c.Label]; ok {
			// known finding with a recorded failing class: the clause must still hold outside that class
			g.oblige(c.Label+".outside", "A", "postcondition holds outside the recorded known-finding class ("+ex.String()+"): "+c.Src, st.reach, sOr(env.evalBool(ex), goal), false)
		}
	}
	// on_error unchanged
	if len(g.spec.OnErrorUnchanged) > 0 {
		var errV *Val
		sig := g.fn.Signature.Results()
		for i := 0; i < sig.Len(); i++ {
			if types.TypeString(sig.At(i).Type(), nil) == "error" {
				errV = &results[i]
			}
		}
		if errV == nil {
			g.errorf("on_error on a function without error result")
		} else {
			isErr := sNot(sEq(errV.T, "(mk-iface 0 0)"))
			for i, e := range g.spec.OnErrorUnchanged {
				now := env.eval(e)
				oenv := g.specEnv(g.entry, g.entry)
				oenv.results = results
				was := oenv.eval(e)
				g.oblige(fmt.Sprintf("on_error.%d", i+1), "A", "error return leaves "+e.String()+" unchanged", sAnd(st.reach, isErr), sEq(now.T, was.T), false)
			}
		}
	}
	for _, cs := range g.spec.Carries {
		g.carryCheck(cs, env, st)
	}
	// frame
	if g.spec.HasAssigns && !g.spec.TrustedFrame {
		g.frameCheck(st)
	}
}

// carryCheck expands a `carries src -> dst` clause into one obligation per field of the struct type
// (enumerated from go/types, so a field added later is covered automatically).
func (g *Gen) carryCheck(cs *CarrySpec, env *SpecEnv, st *State) {
	srcV := env.eval(EOld{cs.Src})
	if srcV.G == nil {
		g.errorf("carries: source %s has no Go type", cs.Src.String())
		return
	}
	t := srcV.G
	if p, ok := t.Underlying().(*types.Pointer); ok {
		t = p.Elem()
	}
	stt, ok := t.Underlying().(*types.Struct)
	if !ok {
		g.errorf("carries: %s is not a struct", cs.Src.String())
		return
	}
	used := map[string]bool{}
	for i := 0; i < stt.NumFields(); i++ {
		f := stt.Field(i)
		name := f.Name()
		if reason, ok := cs.Except[name]; ok {
			used[name] = true
			g.note(fmt.Sprintf("carries %s: field %s excepted (%s)", cs.Src0, name, reason))
			continue
		}
		fs := g.sortOf(f.Type())
		if fs.K == KUnit {
			continue
		}
		now := env.eval(ESel{cs.Dst, name})
		was := env.eval(EOld{ESel{cs.Src, name}})
		was.G = f.Type()
		g.assume("true", g.wfFact(was, g.entry)) // whatever the source held existed at entry
		_, shared := cs.Shared[name]
		if shared {
			used[name] = true
		}
		var goal string
		desc := ""
		switch fs.K {
		case KInt, KBool, KBV, KStr, KF64, KF32, KStruct, KIface, KArray:
			if fs.K == KF64 || fs.K == KF32 {
				goal = sEq(now.T, was.T)
			} else {
				goal = sEq(now.T, was.T)
			}
			desc = "value carried"
		case KPtr:
			goal = sEq(sEq(now.T, "pnull"), sEq(was.T, "pnull"))
			desc = "nil-ness carried"
			if !shared {
				goal = sAnd(goal, sImp(sNot(sEq(now.T, "pnull")), sNot(sEq(now.T, was.T))))
				desc += ", no aliasing"
				// one level deep: scalar fields of the pointee
				if pt, ok := f.Type().Underlying().(*types.Pointer); ok {
					if ps, ok := pt.Elem().Underlying().(*types.Struct); ok && !isOpaqueStruct(pt.Elem()) && !isTimeType(pt.Elem()) {
						for j := 0; j < ps.NumFields(); j++ {
							pk := g.sortOf(ps.Field(j).Type()).K
							if pk == KInt || pk == KBool || pk == KBV || pk == KStr {
								a := env.eval(ESel{ESel{cs.Dst, name}, ps.Field(j).Name()})
								b := env.eval(EOld{ESel{ESel{cs.Src, name}, ps.Field(j).Name()}})
								goal = sAnd(goal, sImp(sNot(sEq(was.T, "pnull")), sEq(a.T, b.T)))
							}
						}
						desc += ", pointee scalars carried"
					}
				}
			} else {
				goal = sEq(now.T, was.T)
				desc = "shared reference carried"
			}
		case KSlice:
			goal = sEq(fmt.Sprintf("(sl.len %s)", now.T), fmt.Sprintf("(sl.len %s)", was.T))
			desc = "length carried"
			if !shared {
				goal = sAnd(goal, sImp(sNot(sEq(fmt.Sprintf("(sl.len %s)", now.T), g.idxLit(0))), sNot(sEq(fmt.Sprintf("(sl.arr %s)", now.T), fmt.Sprintf("(sl.arr %s)", was.T)))))
				desc += ", no aliasing"
			}
		case KRef:
			goal = sEq(sEq(now.T, "0"), sEq(was.T, "0"))
			desc = "nil-ness carried"
			if !shared {
				goal = sAnd(goal, sImp(sNot(sEq(now.T, "0")), sNot(sEq(now.T, was.T))))
				desc += ", no aliasing"
			}
		default:
			continue
		}
		g.oblige("carry."+name, "D", fmt.Sprintf("field %s of %s: %s", name, types.TypeString(t, nil), desc), st.reach, goal, false)
	}
	for name := range cs.Except {
		if !used[name] && name != "" {
			g.errorf("carries: excepted field %s does not exist in %s (contract drift)", name, types.TypeString(t, nil))
		}
	}
}

type frameLoc struct {
	name string
	at   string // pointer/array-id term ("" = whole map)
}

func (g *Gen) frameAllowed() (all bool, allowed []frameLoc) {
	if g.frameDone {
		return g.frameAll, g.frameLocs
	}
	g.frameDone = true
	env := g.specEnv(g.entry, g.entry)
	for _, a := range g.spec.Assigns {
		switch {
		case a.All:
			g.frameAll = true
		case a.Elems:
			g.frameElems = true
		case a.Map != "":
			g.frameLocs = append(g.frameLocs, frameLoc{g.resolveMapName(a.Map), ""})
		default:
			for _, l := range env.assignLocs(a.Expr) {
				g.frameLocs = append(g.frameLocs, frameLoc{l[0], l[1]})
			}
		}
	}
	return g.frameAll, g.frameLocs
}

// frameGoal: heap variable k (current term cur) differs from its entry version only at assigned
// locations (fresh objects exempt). ok=false: nothing to prove.
func (g *Gen) frameGoal(k, cur string) (string, bool) {
	all, allowed := g.frameAllowed()
	if all || strings.HasPrefix(k, "$") {
		return "", false
	}
	if g.frameElems && (strings.HasPrefix(k, "E_") || strings.HasPrefix(k, "C_")) {
		return "", false
	}
	ent := "H0_" + k
	if cur == ent {
		return "", false
	}
	srt := g.heapSorts[k]
	var except []string
	for _, l := range allowed {
		if l.name == k {
			if l.at == "" {
				return "", false
			}
			except = append(except, l.at)
		}
	}
	var idxSort, oldCond string
	switch {
	case strings.HasPrefix(srt, "(Array Ptr "):
		idxSort = "Ptr"
		oldCond = "(and (=> (is-pobj q) (<= (pobj.id q) alloc0)) (=> (is-pelem q) (<= (pelem.arr q) alloc0)))"
	case strings.HasPrefix(srt, "(Array Int "):
		idxSort = "Int"
		oldCond = "(<= q alloc0)"
	default:
		return sEq(cur, ent), true
	}
	var neq []string
	for _, e := range except {
		neq = append(neq, sNot(sEq("q", e)))
	}
	return fmt.Sprintf("(forall ((q %s)) (! (=> %s (= (select %s q) (select %s q))) :pattern ((select %s q))))", idxSort, sAnd(append(neq, oldCond)...), cur, ent, cur), true
}

// frameCheck: every heap variable differs from its entry version only at the assigned locations.
func (g *Gen) frameCheck(st *State) {
	for _, k := range sortedKeys(st.heap) {
		if goal, ok := g.frameGoal(k, st.heap[k]); ok {
			g.oblige("frame."+k, "A", "frame: only the assigned locations of "+k+" change", st.reach, goal, false)
		}
	}
}

func (g *Gen) resolveMapName(s string) string {
	// "T::f"  → field map of struct type T in the current package
	parts := strings.SplitN(s, "::", 2)
	tn, f := strings.TrimSpace(parts[0]), strings.TrimSpace(parts[1])
	if obj := g.fn.Pkg.Pkg.Scope().Lookup(tn); obj != nil {
		if st, ok := obj.Type().Underlying().(*types.Struct); ok {
			for i := 0; i < st.NumFields(); i++ {
				if st.Field(i).Name() == f {
					n, _, _ := g.fieldMapName(obj.Type(), i)
					return n
				}
			}
		}
	}
	g.errorf("assigns: cannot resolve %s", s)
	return s
}

func sortStrings(xs []string) []string { sort.Strings(xs); return xs }

// rangeIndexLoop recognises the header of go/ssa's range-over-slice/array lowering:
//
//	t = *rangeindex ; t' = t + 1 ; *rangeindex = t' ; c = t' < len ; if c ...
func rangeIndexLoop(h *ssa.BasicBlock) (*ssa.Alloc, ssa.Value) {
	if h.Comment != "rangeindex.loop" || len(h.Instrs) < 5 {
		return nil, nil
	}
	ld, ok := h.Instrs[0].(*ssa.UnOp)
	if !ok || ld.Op != token.MUL {
		return nil, nil
	}
	a, ok := ld.X.(*ssa.Alloc)
	if !ok || a.Comment != "rangeindex" {
		return nil, nil
	}
	for _, in := range h.Instrs {
		if b, ok := in.(*ssa.BinOp); ok && b.Op == token.LSS {
			return a, b.Y
		}
	}
	return nil, nil
}

// isEntryRead: does a load through address a read a heap map that still has its entry version
// (i.e. the value is an input of the function)?
func (g *Gen) isEntryRead(a *Addr, st *State) bool {
	if a.rk != rPtr || len(a.path) == 0 || a.path[0].k != stField {
		return false
	}
	if _, ok := a.typ.Underlying().(*types.Struct); !ok || isTimeType(a.typ) || isOpaqueStruct(a.typ) {
		return false
	}
	name, _, _ := g.fieldMapName(a.typ, a.path[0].field)
	cur, ok := st.heap[name]
	return !ok && st.gen == 0 || cur == "H0_"+name
}

func (g *Gen) sortedAllocs(m map[*ssa.Alloc]bool) []*ssa.Alloc {
	var out []*ssa.Alloc
	for a := range m {
		out = append(out, a)
	}
	sort.Slice(out, func(i, j int) bool { return g.allocOrder[out[i]] < g.allocOrder[out[j]] })
	return out
}

// reinterpret: unsafe re-view of a 64-bit value (float64 <-> (u)int64), bit-exact.
func (g *Gen) reinterpret(v Val, to types.Type) Val {
	ts := g.sortOf(to)
	switch {
	case v.S.K == KF64 && (ts.K == KBV && ts.W == 64):
		g.declareFun("f64.bits", "((_ FloatingPoint 11 53)) (_ BitVec 64)")
		b := g.define("bits", bvSort(64), fmt.Sprintf("(f64.bits %s)", v.T))
		g.assume("true", fmt.Sprintf("(= ((_ to_fp 11 53) %s) %s)", b, v.T))
		return Val{T: b, S: ts, G: to}
	case v.S.K == KBV && v.S.W == 64 && ts.K == KF64:
		g.declareFun("f64.bits", "((_ FloatingPoint 11 53)) (_ BitVec 64)")
		r := g.define("fb", sF64, fmt.Sprintf("((_ to_fp 11 53) %s)", v.T))
		g.assume("true", fmt.Sprintf("(= (f64.bits %s) %s)", r, v.T))
		return Val{T: r, S: sF64, G: to}
	case v.S.K == ts.K && v.S.W == ts.W:
		return Val{T: v.T, S: ts, G: to}
	}
	g.errorf("unsupported unsafe re-view %s -> %s", v.S.SMT(), ts.SMT())
	return g.freshVal("rv", to, nil, "true")
}

func (g *Gen) callHasFrameNothing(ci ssa.CallInstruction) bool {
	if g.spec == nil {
		return false
	}
	for _, r := range g.spec.Calls {
		if r.FrameNothing && g.ruleMatches(r, ci.Common(), "") {
			return true
		}
	}
	return false
}

// fieldCover: class D (syntactic): every field of the struct is read from the parameter / written in
// values of the type somewhere in the function body. The field list comes from go/types.
func (g *Gen) fieldCover(fc *FieldCoverSpec) {
	var stt *types.Struct
	var named types.Type
	isBase := func(v ssa.Value) bool { return false }
	if fc.Writes {
		if obj := g.fn.Pkg.Pkg.Scope().Lookup(fc.Target); obj != nil {
			named = obj.Type()
		} else if t := g.W.lookupType(fc.Target, g.fn.Pkg.Pkg); t != nil {
			named = t
		}
		if named == nil {
			g.errorf("writes_all: unknown type %s", fc.Target)
			return
		}
		stt, _ = named.Underlying().(*types.Struct)
	} else {
		for _, p := range g.fn.Params {
			if p.Name() == fc.Target {
				t := p.Type()
				if pt, ok := t.Underlying().(*types.Pointer); ok {
					t = pt.Elem()
				}
				named = t
				stt, _ = t.Underlying().(*types.Struct)
				param := p
				isBase = func(v ssa.Value) bool {
					for {
						switch x := v.(type) {
						case *ssa.Parameter:
							return x == param
						case *ssa.UnOp:
							v = x.X
						case *ssa.Alloc:
							return x.Comment == param.Name()
						default:
							return false
						}
					}
				}
			}
		}
	}
	if stt == nil {
		g.errorf("%s: %s is not a struct", map[bool]string{true: "writes_all", false: "reads_all"}[fc.Writes], fc.Target)
		return
	}
	covered := map[int]bool{}
	for _, b := range g.fn.Blocks {
		for _, in := range b.Instrs {
			switch x := in.(type) {
			case *ssa.FieldAddr:
				bt := x.X.Type().Underlying().(*types.Pointer).Elem()
				if !types.Identical(bt, named) {
					continue
				}
				if fc.Writes {
					// counts if some store goes through this address
					if refs := x.Referrers(); refs != nil {
						for _, r := range *refs {
							if st, ok := r.(*ssa.Store); ok && st.Addr == x {
								covered[x.Field] = true
							}
						}
					}
				} else if isBase(x.X) {
					covered[x.Field] = true
				}
			case *ssa.Field:
				if !fc.Writes && types.Identical(x.X.Type(), named) && isBase(x.X) {
					covered[x.Field] = true
				}
			}
		}
	}
	if fc.Writes && fc.AllPaths {
		// must-analysis over the CFG: a field counts only if a store to it happens on every path from the entry
		// to every return (IN[b] = intersection of OUT[preds], OUT[b] = IN[b] + stores in b)
		gen := map[*ssa.BasicBlock]map[int]bool{}
		for _, b := range g.fn.Blocks {
			gen[b] = map[int]bool{}
			for _, in := range b.Instrs {
				if st, ok := in.(*ssa.Store); ok {
					if fa, ok := st.Addr.(*ssa.FieldAddr); ok && types.Identical(fa.X.Type().Underlying().(*types.Pointer).Elem(), named) {
						gen[b][fa.Field] = true
					}
				}
			}
		}
		all := map[int]bool{}
		for i := 0; i < stt.NumFields(); i++ {
			all[i] = true
		}
		out := map[*ssa.BasicBlock]map[int]bool{}
		for _, b := range g.fn.Blocks {
			out[b] = all
		}
		changed := true
		for changed {
			changed = false
			for _, b := range g.fn.Blocks {
				in := map[int]bool{}
				if len(b.Preds) > 0 {
					for f := range all {
						ok := true
						for _, p := range b.Preds {
							if !out[p][f] {
								ok = false
							}
						}
						if ok {
							in[f] = true
						}
					}
				}
				for f := range gen[b] {
					in[f] = true
				}
				if len(in) != len(out[b]) {
					out[b] = in
					changed = true
				}
			}
		}
		covered = map[int]bool{}
		first := true
		for _, b := range g.fn.Blocks {
			if len(b.Instrs) == 0 {
				continue
			}
			if _, ok := b.Instrs[len(b.Instrs)-1].(*ssa.Return); !ok {
				continue
			}
			if first {
				for f := range out[b] {
					covered[f] = true
				}
				first = false
				continue
			}
			for f := range covered {
				if !out[b][f] {
					delete(covered, f)
				}
			}
		}
	}
	g.curPos = g.fn.Pos()
	used := map[string]bool{}
	kind := "reads"
	if fc.Writes {
		kind = "writes"
	}
	for i := 0; i < stt.NumFields(); i++ {
		name := stt.Field(i).Name()
		if reason, ok := fc.Except[name]; ok {
			used[name] = true
			g.note(fmt.Sprintf("%s_all %s in %s: field %s excepted (%s)", kind, fc.Target, g.key, name, reason))
			continue
		}
		goal := "false"
		if covered[i] {
			goal = "true"
		}
		g.oblige(fmt.Sprintf("%s.%s.%s", kind, fc.Target, name), "D", fmt.Sprintf("field %s of %s is %s by this function (syntactic completeness)", name, fc.Target, map[bool]string{true: "written", false: "read"}[fc.Writes]), "true", goal, false)
	}
	for name := range fc.Except {
		if !used[name] && name != "" {
			g.errorf("%s_all: excepted field %s does not exist in %s (contract drift)", kind, name, fc.Target)
		}
	}
}

// initVarSlice restricts the symbolic execution of a package initializer to the instructions that compute the
// initial value of one package-level variable: the instructions positioned inside its declaration plus everything
// they (transitively) use. The init guard is taken as "not yet initialised".
func (g *Gen) initVarSlice(name string) {
	var lo, hi token.Pos
	if g.fn.Pkg != nil {
		if sp := g.W.pkgSyntax(g.fn.Pkg.Pkg.Path()); sp != nil {
			for _, f := range sp {
				for _, d := range f.Decls {
					gd, ok := d.(*ast.GenDecl)
					if !ok || gd.Tok != token.VAR {
						continue
					}
					for _, s := range gd.Specs {
						vs := s.(*ast.ValueSpec)
						for _, n := range vs.Names {
							if n.Name == name {
								lo, hi = vs.Pos(), vs.End()
							}
						}
					}
				}
			}
		}
	}
	g.only = map[ssa.Instruction]bool{}
	if !lo.IsValid() {
		g.errorf("contract drift: package variable %s not found", name)
		return
	}
	var work []ssa.Instruction
	add := func(in ssa.Instruction) {
		if !g.only[in] {
			g.only[in] = true
			work = append(work, in)
		}
	}
	for _, b := range g.fn.Blocks {
		for _, in := range b.Instrs {
			if p := in.Pos(); p.IsValid() && lo <= p && p <= hi {
				add(in)
			}
		}
	}
	if len(work) == 0 {
		g.errorf("contract drift: no initializer instructions found for package variable %s", name)
	}
	for len(work) > 0 {
		in := work[len(work)-1]
		work = work[:len(work)-1]
		for _, op := range in.Operands(nil) {
			if op == nil || *op == nil {
				continue
			}
			if def, ok := (*op).(ssa.Instruction); ok && def.Parent() == g.fn {
				add(def)
			}
		}
	}
	// branch conditions outside the slice: the init guard is "not yet initialised", anything else is arbitrary
	for _, b := range g.fn.Blocks {
		for _, in := range b.Instrs {
			iff, ok := in.(*ssa.If)
			if !ok {
				continue
			}
			def, isInstr := iff.Cond.(ssa.Instruction)
			if !isInstr || g.only[def] {
				continue
			}
			t := g.fresh("br")
			g.declare(t, "Bool")
			if u, ok := iff.Cond.(*ssa.UnOp); ok {
				if gl, ok := u.X.(*ssa.Global); ok && gl.Name() == "init$guard" {
					g.assume("true", sNot(t))
				}
			}
			g.vals[iff.Cond] = Val{T: t, S: sBool, G: iff.Cond.Type()}
		}
	}
	g.note("package initializer of " + g.fn.Pkg.Pkg.Path() + " restricted to the initializer of variable " + name + " (the rest of the initializer is not executed)")
}


// replayElems: how many leading elements of a slice / string parameter are asked from the solver's model, so that a
// counterexample can be rebuilt as a Go value and replayed against the real code.
const replayElems = 16

// addInputModelVars registers, for every parameter that is a string or a slice of a basic type, its length and its
// first replayElems elements (entry state) as model variables.
func (g *Gen) addInputModelVars(st *State) {
	for _, p := range g.fn.Params {
		v, ok := g.params[p.Name()]
		if !ok || v.S == nil {
			continue
		}
		switch u := p.Type().Underlying().(type) {
		case *types.Basic:
			if u.Info()&types.IsString == 0 || v.S.K != KStr {
				continue
			}
			g.modelVars = append(g.modelVars, ModelVar{Name: p.Name() + "#len", Term: fmt.Sprintf("(gstr.len %s)", v.T), Sort: g.idxSort().SMT()})
			for k := 0; k < replayElems; k++ {
				g.modelVars = append(g.modelVars, ModelVar{Name: fmt.Sprintf("%s#%d", p.Name(), k), Term: fmt.Sprintf("(gstr.at %s %s)", v.T, g.idxLit(int64(k))), Sort: g.byteSort().SMT()})
			}
		case *types.Slice:
			eb, isBasic := u.Elem().Underlying().(*types.Basic)
			if !isBasic || eb.Info()&(types.IsInteger|types.IsBoolean|types.IsFloat) == 0 || v.S.K != KSlice {
				continue
			}
			es := g.sortOf(u.Elem())
			name, sort := g.elemMapName(es)
			h := g.heapGet(st, name, sort)
			g.modelVars = append(g.modelVars, ModelVar{Name: p.Name() + "#len", Term: fmt.Sprintf("(sl.len %s)", v.T), Sort: g.idxSort().SMT()})
			for k := 0; k < replayElems; k++ {
				t := fmt.Sprintf("(select (select %s (sl.arr %s)) %s)", h, v.T, g.idxAdd(fmt.Sprintf("(sl.off %s)", v.T), g.idxLit(int64(k))))
				g.modelVars = append(g.modelVars, ModelVar{Name: fmt.Sprintf("%s#%d", p.Name(), k), Term: t, Sort: es.SMT()})
			}
		}
	}
}
