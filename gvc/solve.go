package main

import (
	"bytes"
	"context"
	"fmt"
	"os"
	"os/exec"
	"path/filepath"
	"strings"
	"sync"
	"time"
)

type Result struct {
	O      *Obligation
	Status string // discharged | refuted | undecided
	Solver string
	Ms     int64
	Model  map[string]string
	Output string
	Query  string
	Second string // cross-check solver (thorough)
}

func (g *Gen) preamble() string {
	var b strings.Builder
	idx := g.idxSort().SMT()
	b.WriteString("(declare-datatypes ((Ptr 0)) (((pnull) (pobj (pobj.id Int)) (pelem (pelem.arr Int) (pelem.idx " + idx + ")))))\n")
	b.WriteString("(declare-datatypes ((Slice 0)) (((mk-slice (sl.arr Int) (sl.off " + idx + ") (sl.len " + idx + ") (sl.cap " + idx + ")))))\n")
	b.WriteString("(declare-datatypes ((Iface 0)) (((mk-iface (if.tag Int) (if.val Int)))))\n")
	b.WriteString("(declare-sort Str 0)\n")
	b.WriteString("(declare-fun gstr.len (Str) " + idx + ")\n")
	b.WriteString("(declare-fun gstr.at (Str " + idx + ") " + g.byteSort().SMT() + ")\n")
	b.WriteString("(declare-fun gstr.id (Str) Int)\n")
	if g.indexFn && !g.bv {
		b.WriteString("(declare-fun sl.ix (Int Int) Int)\n")
		b.WriteString("(assert (forall ((o Int) (i Int)) (! (= (sl.ix o i) (+ o i)) :pattern ((sl.ix o i)))))\n")
	}
	for _, d := range g.sortDecls {
		b.WriteString(d)
		b.WriteByte('\n')
	}
	return b.String()
}

func (g *Gen) queryFor(o *Obligation) *Query {
	q := &Query{Name: o.Func + "#" + o.Clause, Preamble: g.preamble(), Decls: g.decls}
	q.Assumes = append(q.Assumes, g.assumes[:o.NAssume]...)
	// axioms over spec functions: only those whose symbols occur in this obligation's context
	ctx := strings.Join(q.Assumes, " ") + " " + o.Goal + " " + o.Guard + " " + strings.Join(g.decls, " ")
	for _, ax := range g.axioms {
		syms := sfSymbols(ax)
		if len(syms) == 0 {
			// axiom over built-in symbols only (string order, slicing): relevant if the context slices strings
			if strings.Contains(ax, "gstr.sub") && strings.Contains(ctx, "(gstr.sub ") || !strings.Contains(ax, "gstr.sub") {
				q.Assumes = append(q.Assumes, ax)
			}
			continue
		}
		for _, sym := range syms {
			if strings.Contains(ctx, "("+sym+" ") {
				q.Assumes = append(q.Assumes, ax)
				break
			}
		}
	}
	q.Assumes = append(q.Assumes, o.Guard)
	q.Goal = o.Goal
	q.Vars = g.modelVars
	return q
}

type solverSpec struct {
	name string
	args func(file string, timeoutS int) []string
	pre  string
}

var solvers = []solverSpec{
	{"z3-new", func(f string, t int) []string { return []string{"z3-new", fmt.Sprintf("-T:%d", t), f} }, ""},
	{"z3", func(f string, t int) []string { return []string{"z3", fmt.Sprintf("-T:%d", t), f} }, ""},
	{"cvc5", func(f string, t int) []string {
		return []string{"cvc5", "--produce-models", fmt.Sprintf("--tlimit=%d", t*1000), f}
	}, "(set-logic ALL)\n"},
}

func runSolver(ctx context.Context, s solverSpec, text string, dir string, id string, timeoutS int) (status, out string, ms int64) {
	file := filepath.Join(dir, id+"."+s.name+".smt2")
	body := s.pre + text
	if s.name == "cvc5" && strings.Contains(body, "(lambda") {
		return "unknown", "skipped", 0
	}
	if err := os.WriteFile(file, []byte(body), 0o644); err != nil {
		return "unknown", err.Error(), 0
	}
	defer os.Remove(file)
	args := s.args(file, timeoutS)
	cctx, cancel := context.WithTimeout(ctx, time.Duration(timeoutS+2)*time.Second)
	defer cancel()
	cmd := exec.CommandContext(cctx, args[0], args[1:]...)
	var buf bytes.Buffer
	cmd.Stdout = &buf
	cmd.Stderr = &buf
	t0 := time.Now()
	cmd.Run()
	ms = time.Since(t0).Milliseconds()
	// CPU time of the solver process is what the claim threshold and the evidence use: it does not grow
	// when the machine is loaded (wall-clock time does, and made claimed clauses look slow)
	if ps := cmd.ProcessState; ps != nil {
		if cpu := (ps.UserTime() + ps.SystemTime()).Milliseconds(); cpu < ms {
			ms = cpu
		}
	}
	out = buf.String()
	first := ""
	for _, l := range strings.Split(out, "\n") {
		l = strings.TrimSpace(l)
		if l == "" || strings.HasPrefix(l, "WARNING") || strings.Contains(l, "No set-logic command") || strings.Contains(l, "cvc5 will make all theories") || strings.Contains(l, "Consider setting a stricter logic") {
			continue
		}
		first = l
		break
	}
	switch first {
	case "unsat":
		return "unsat", out, ms
	case "sat":
		return "sat", out, ms
	}
	if strings.HasPrefix(first, "(error") && !strings.Contains(first, "model is not available") {
		return "error", out, ms
	}
	return "unknown", out, ms
}

// solve discharges one query: quick single-solver attempt, then a race.
func solveQuery(q *Query, dir, id string, timeoutS int, order int) (status, solver, out string, ms int64) {
	text := q.Text(true)
	ctx := context.Background()
	first := 4
	if timeoutS < first {
		first = timeoutS
	}
	st, o, m := runSolver(ctx, solvers[0], text, dir, id, first)
	if st != "unknown" {
		return st, solvers[0].name, o, m
	}
	total := m
	// race all
	type res struct {
		st, name, out string
		ms            int64
	}
	rctx, cancel := context.WithCancel(ctx)
	defer cancel()
	ch := make(chan res, len(solvers))
	for i := range solvers {
		s := solvers[(i+order)%len(solvers)]
		go func() {
			st, o, m := runSolver(rctx, s, text, dir, id, timeoutS)
			ch <- res{st, s.name, o, m}
		}()
	}
	var last res
	for range solvers {
		r := <-ch
		if r.st == "sat" || r.st == "unsat" {
			return r.st, r.name, r.out, total + r.ms
		}
		if r.ms > last.ms {
			last = r
		}
	}
	return "unknown", last.name, o + "\n" + last.out, total + last.ms
}

func parseModel(out string, vars []ModelVar) map[string]string {
	m := map[string]string{}
	// output after first line: ((term value) (term value) ...)
	i := strings.Index(out, "((")
	if i < 0 {
		return m
	}
	body := strings.TrimSpace(out[i:])
	// split top-level pairs
	depth := 0
	start := -1
	var pairs []string
	for k := 0; k < len(body); k++ {
		switch body[k] {
		case '(':
			depth++
			if depth == 2 {
				start = k
			}
		case ')':
			if depth == 2 && start >= 0 {
				pairs = append(pairs, body[start:k+1])
				start = -1
			}
			depth--
		}
	}
	for idx, p := range pairs {
		if idx >= len(vars) {
			break
		}
		inner := strings.TrimSpace(p[1 : len(p)-1])
		v := vars[idx]
		if strings.HasPrefix(inner, v.Term) {
			m[v.Name] = strings.TrimSpace(inner[len(v.Term):])
		}
	}
	return m
}

func solveAll(jobs []*job, timeoutS int, workers int, seed int, crossCheck bool) {
	dir, err := os.MkdirTemp("", "gvc-")
	if err != nil {
		panic(err)
	}
	defer os.RemoveAll(dir)
	var wg sync.WaitGroup
	ch := make(chan *job)
	for w := 0; w < workers; w++ {
		wg.Add(1)
		go func() {
			defer wg.Done()
			for j := range ch {
				q := j.g.queryFor(j.o)
				id := fmt.Sprintf("q%d", j.idx)
				var st, solver, out string
				var ms int64
				if j.o.Clause == "$cover" {
					// vacuity probe: a quick satisfiability check; "unknown" is acceptable
					solver = solvers[0].name
					st, out, ms = runSolver(context.Background(), solvers[0], q.Text(false), dir, id, 3)
				} else {
					st, solver, out, ms = solveQuery(q, dir, id, timeoutS, seed)
				}
				r := &Result{O: j.o, Solver: solver, Ms: ms, Output: truncate(out, 4000)}
				switch st {
				case "unsat":
					r.Status = "discharged"
					if crossCheck {
						// second opinion from a different solver
						for _, s := range solvers {
							if s.name == solver {
								continue
							}
							st2, _, _ := runSolver(context.Background(), s, q.Text(false), dir, id+"x", timeoutS)
							if st2 == "sat" {
								r.Status = "undecided"
								r.Output = "SOLVER DISAGREEMENT: " + solver + " unsat, " + s.name + " sat"
							}
							if st2 != "unknown" {
								r.Second = s.name + ":" + st2
								break
							}
						}
					}
				case "sat":
					r.Status = "refuted"
					r.Model = parseModel(out, q.Vars)
				case "error":
					r.Status = "undecided"
					r.Output = "SOLVER ERROR: " + r.Output
					j.g.errs = append(j.g.errs, "malformed SMT for "+j.o.Clause+": "+truncate(out, 300))
				default:
					r.Status = "undecided"
				}
				r.Query = q.Text(true)
				j.res = r
			}
		}()
	}
	for _, j := range jobs {
		ch <- j
	}
	close(ch)
	wg.Wait()
}

func truncate(s string, n int) string {
	if len(s) > n {
		return s[:n] + "…"
	}
	return s
}

type job struct {
	g   *Gen
	o   *Obligation
	idx int
	res *Result
}

func sfSymbols(t string) []string {
	var out []string
	for i := 0; i+3 < len(t); i++ {
		if t[i] == '(' && strings.HasPrefix(t[i+1:], "sf_") {
			j := i + 1
			for j < len(t) && t[j] != ' ' && t[j] != ')' {
				j++
			}
			out = append(out, t[i+1:j])
		}
	}
	return out
}
