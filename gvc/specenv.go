package main

import (
	"fmt"
	"go/constant"
	"go/token"
	"go/types"
	"math/big"
	"strings"

	"golang.org/x/tools/go/ssa"
)

type SpecEnv struct {
	g             *Gen
	st            *State
	old           *State
	vars          map[string]Val
	results       []Val
	resultNames   []string
	atReturn      bool
	useLocals     bool
	atLoop        *loopInfo
	calleePkg     *types.Package
	calleeFn      *ssa.Function
	depth         int
	inQuant       bool
	cur           *State // inside old(): the current state (ghosts and the range index are read from it)
	triggers      []Expr
	noRangeGuards bool // axioms over uninterpreted spec functions quantify over mathematical integers
}

func (g *Gen) specEnv(st, old *State) *SpecEnv {
	return &SpecEnv{g: g, st: st, old: old, vars: map[string]Val{}}
}

func (e *SpecEnv) child() *SpecEnv {
	n := *e
	n.vars = make(map[string]Val, len(e.vars)+2)
	for k, v := range e.vars {
		n.vars[k] = v
	}
	return &n
}

func (e *SpecEnv) pkg() *types.Package {
	if e.calleePkg != nil {
		return e.calleePkg
	}
	if e.g.fn != nil && e.g.fn.Pkg != nil {
		return e.g.fn.Pkg.Pkg
	}
	return e.g.W.lemmaPkg
}

func (e *SpecEnv) evalBool(x Expr) string {
	v := e.eval(x)
	if v.S == nil || v.S.K != KBool {
		e.g.errorf("spec expression %s is not boolean", x.String())
		return "true"
	}
	return v.T
}

var tokOf = map[string]token.Token{"+": token.ADD, "-": token.SUB, "*": token.MUL, "/": token.QUO, "%": token.REM, "&": token.AND, "|": token.OR, "^": token.XOR,
	"<<": token.SHL, ">>": token.SHR, "&^": token.AND_NOT, "==": token.EQL, "!=": token.NEQ, "<": token.LSS, "<=": token.LEQ, ">": token.GTR, ">=": token.GEQ}

func (e *SpecEnv) eval(x Expr) Val {
	g := e.g
	switch n := x.(type) {
	case EBool:
		if n.V {
			return Val{T: "true", S: sBool}
		}
		return Val{T: "false", S: sBool}
	case EInt:
		v, _ := new(big.Int).SetString(n.V, 10)
		return Val{C: v}
	case EStr:
		return Val{T: g.strLit(n.V), S: sStr, G: types.Typ[types.String]}
	case ENil:
		return Val{T: "$nil", S: sPtr}
	case EIdent:
		return e.evalIdent(n.Name)
	case EOld:
		if e.old == nil {
			g.errorf("old() not available here: %s", x.String())
			return e.eval(n.X)
		}
		c := e.child()
		// the heap (and parameters) of the entry state, but the CURRENT ghost values: old(a[g]) with a ghost g
		// reads the old array at the position the ghost holds now
		os := e.old.clone()
		os.ghosts = e.st.ghosts
		c.st = os
		if c.cur == nil {
			c.cur = e.st
		}
		c.useLocals = false
		return c.eval(n.X)
	case EUnary:
		v := e.eval(n.X)
		switch n.Op {
		case "!":
			return Val{T: sNot(v.T), S: sBool}
		case "-":
			if v.untyped() {
				return Val{C: new(big.Int).Neg(v.C)}
			}
			switch v.S.K {
			case KInt:
				return Val{T: fmt.Sprintf("(- %s)", v.T), S: sInt, G: v.G}
			case KBV:
				return Val{T: fmt.Sprintf("(bvneg %s)", v.T), S: v.S, G: v.G}
			case KF64, KF32:
				return Val{T: fmt.Sprintf("(fp.neg %s)", v.T), S: v.S, G: v.G}
			}
		case "^":
			if v.S != nil && v.S.K == KBV {
				return Val{T: fmt.Sprintf("(bvnot %s)", v.T), S: v.S, G: v.G}
			}
		}
		g.errorf("spec: bad unary %s", x.String())
		return v
	case ECond:
		c := e.evalBool(n.C)
		a, b := e.eval(n.A), e.eval(n.B)
		a, b = g.unify(a, b)
		return Val{T: sIte(c, a.T, b.T), S: a.S, G: a.G}
	case EBin:
		return e.evalBin(n)
	case ESel:
		return e.evalSel(n)
	case EIndex:
		return e.evalIndex(n)
	case ESlice:
		s := e.eval(n.X)
		lo := g.idxLit(0)
		if n.Lo != nil {
			lo = e.idxVal(n.Lo)
		}
		switch s.S.K {
		case KSlice:
			hi := fmt.Sprintf("(sl.len %s)", s.T)
			if n.Hi != nil {
				hi = e.idxVal(n.Hi)
			}
			return Val{T: fmt.Sprintf("(mk-slice (sl.arr %s) %s %s %s)", s.T, g.idxAdd(fmt.Sprintf("(sl.off %s)", s.T), lo), g.idxSub(hi, lo), g.idxSub(fmt.Sprintf("(sl.cap %s)", s.T), lo)), S: sSlice, G: s.G}
		case KStr:
			hi := fmt.Sprintf("(gstr.len %s)", s.T)
			if n.Hi != nil {
				hi = e.idxVal(n.Hi)
			}
			g.needStrSub()
			return Val{T: fmt.Sprintf("(gstr.sub %s %s %s)", s.T, lo, hi), S: sStr, G: s.G}
		}
		g.errorf("spec: slice of %s", x.String())
		return s
	case ECall:
		return e.evalCall(n)
	case EQuant:
		c := e.child()
		c.inQuant = true
		var binders []string
		var guards []string
		for _, qv := range n.Vars {
			s, gt := g.specType(qv.Type, e.pkg())
			name := "q_" + qv.Name
			binders = append(binders, fmt.Sprintf("(%s %s)", name, s.SMT()))
			v := Val{T: name, S: s, G: gt}
			c.vars[qv.Name] = v
			if w := g.wfFact(v, nil); w != "true" && s.K == KInt && !e.noRangeGuards {
				guards = append(guards, w)
			}
		}
		body := c.evalBool(n.Body)
		if len(e.triggers) > 0 && n.Forall {
			var ts []string
			for _, t := range e.triggers {
				ts = append(ts, c.eval(t).T)
			}
			body = sImp(sAnd(guards...), body)
			return Val{T: fmt.Sprintf("(forall (%s) (! %s :pattern (%s)))", strings.Join(binders, " "), body, strings.Join(ts, " ")), S: sBool}
		}
		q := "exists"
		if n.Forall {
			q = "forall"
			body = sImp(sAnd(guards...), body)
		} else {
			body = sAnd(append(guards, body)...)
		}
		return Val{T: fmt.Sprintf("(%s (%s) %s)", q, strings.Join(binders, " "), body), S: sBool}
	}
	g.errorf("spec: cannot evaluate %T", x)
	return Val{T: "true", S: sBool}
}

func (e *SpecEnv) idxVal(x Expr) string {
	v := e.eval(x)
	if v.untyped() {
		return e.g.idxLit(v.C.Int64())
	}
	return e.g.toIdx(v, orInt(v.G)).T
}

func orInt(t types.Type) types.Type {
	if t == nil {
		return types.Typ[types.Int]
	}
	return t
}

func (g *Gen) specType(name string, pkg *types.Package) (*Sort, types.Type) {
	switch name {
	case "int", "int64", "int32", "int16", "int8", "uint", "uint64", "uint32", "uint16", "uint8", "byte", "bool", "string", "float64", "uintptr":
		if name == "byte" {
			name = "uint8"
		}
		t := types.Universe.Lookup(name).Type()
		return g.sortOf(t), t
	case "Int":
		return sInt, nil
	case "Ptr":
		return sPtr, nil
	case "Iface":
		return sIface, nil
	case "Time":
		return sInt, nil
	case "error":
		return sIface, types.Universe.Lookup("error").Type()
	}
	if strings.HasPrefix(name, "[]") {
		_, et := g.specType(name[2:], pkg)
		if et != nil {
			return sSlice, types.NewSlice(et)
		}
		return sSlice, nil
	}
	ptr := false
	if strings.HasPrefix(name, "*") {
		ptr = true
		name = name[1:]
	}
	if pkg != nil {
		if o := pkg.Scope().Lookup(name); o != nil {
			if ptr {
				return sPtr, types.NewPointer(o.Type())
			}
			return g.sortOf(o.Type()), o.Type()
		}
	}
	g.errorf("spec: unknown type %s", name)
	return sInt, nil
}

func (g *Gen) coerceToSpecType(v Val, tname string) Val {
	pkg := (*types.Package)(nil)
	if g.fn != nil && g.fn.Pkg != nil {
		pkg = g.fn.Pkg.Pkg
	}
	s, t := g.specType(tname, pkg)
	if v.untyped() {
		return g.coerce(v, s, t)
	}
	if v.T == "$nil" {
		return g.nilOf(Val{S: s, G: t})
	}
	v.G = t
	return v
}

func (e *SpecEnv) evalIdent(name string) Val {
	g := e.g
	if v, ok := e.vars[name]; ok {
		return v
	}
	if v, ok := e.st.ghosts[name]; ok {
		return v
	}
	if tn, ok := g.W.globalGhosts[name]; ok {
		s, t := g.specType(tn, e.pkg())
		return Val{T: g.heapGet(e.st, "GG_"+name, s.SMT()), S: s, G: t}
	}
	if e.results != nil {
		if name == "result" && len(e.results) >= 1 {
			return e.results[0]
		}
		if strings.HasPrefix(name, "result") {
			var k int
			if _, err := fmt.Sscanf(name, "result%d", &k); err == nil && k < len(e.results) {
				return e.results[k]
			}
		}
		names := e.resultNames
		if names == nil && e.calleeFn == nil && g.fn != nil {
			names = resultNames(g.fn.Signature)
		}
		for i, n := range names {
			if n == name && n != "" && i < len(e.results) {
				return e.results[i]
			}
		}
	}
	if e.calleeFn == nil && e.calleePkg == nil && g.fn != nil {
		if e.useLocals {
			if a := g.lookupLocal(name, e); a != nil {
				ad := g.addrs[a]
				if ad == nil {
					et := a.Type().(*types.Pointer).Elem()
					if g.isLocal[a] {
						ad = &Addr{rk: rLocal, local: a, typ: et, text: a.Comment}
					}
				}
				if ad != nil {
					return g.loadAddr(ad, e.st)
				}
			}
		}
		if v, ok := g.params[name]; ok {
			return v
		}
		for _, fv := range g.fn.FreeVars {
			if fv.Name() == name {
				// captured variable: pointer to the cell
				p := g.vals[fv]
				return g.loadPtr(p, fv.Type().(*types.Pointer).Elem(), nil, e.st)
			}
		}
	}
	if name == "now" {
		if v, ok := e.st.ghosts["$now"]; ok {
			return v
		}
	}
	if name == "TIME_ZERO" {
		return Val{T: timeZeroNS, S: sInt}
	}
	if name == "rangeindex" && e.atLoop != nil {
		if ri, _ := rangeIndexLoop(e.atLoop.header); ri != nil {
			if v, ok := e.st.locals[ri]; ok {
				return v
			}
		}
	}
	if name == "rangeindex" && e.atLoop == nil && g.curBlock != nil {
		// in a call/store rule: the index of the innermost `range` loop whose body contains the current block
		var best *loopInfo
		for _, li := range g.loops {
			if !li.body[g.curBlock] {
				continue
			}
			if ri, _ := rangeIndexLoop(li.header); ri == nil {
				continue
			}
			if best == nil || len(li.body) < len(best.body) {
				best = li
			}
		}
		if best != nil {
			ri, _ := rangeIndexLoop(best.header)
			st := e.st
			if e.cur != nil {
				st = e.cur
			}
			if v, ok := st.locals[ri]; ok {
				return v
			}
			if ad := g.addrs[ri]; ad != nil {
				return g.loadAddr(ad, st)
			}
		}
	}
	// package scope
	if pkg := e.pkg(); pkg != nil {
		if o := pkg.Scope().Lookup(name); o != nil {
			return e.objVal(o)
		}
	}
	g.errorf("spec: unknown identifier %q", name)
	return Val{T: "0", S: sInt}
}

func (e *SpecEnv) objVal(o types.Object) Val {
	g := e.g
	switch c := o.(type) {
	case *types.Const:
		t := c.Type()
		s := g.sortOf(t)
		switch c.Val().Kind() {
		case constant.Int:
			n, _ := new(big.Int).SetString(c.Val().ExactString(), 10)
			if b, ok := t.Underlying().(*types.Basic); ok && b.Info()&types.IsUntyped != 0 {
				return Val{C: n}
			}
			return g.coerce(Val{C: n}, s, t)
		case constant.Bool:
			return Val{T: c.Val().String(), S: sBool, G: t}
		case constant.String:
			return Val{T: g.strLit(constant.StringVal(c.Val())), S: sStr, G: t}
		case constant.Float:
			f, _ := constant.Float64Val(c.Val())
			if s.K == KF64 || s.K == KF32 {
				return Val{T: g.floatLit(f, s), S: s, G: t}
			}
			n := new(big.Int)
			new(big.Float).SetFloat64(f).Int(n)
			return Val{C: n}
		}
	case *types.Var:
		// package-level variable
		s := g.sortOf(c.Type())
		name := "G_" + mangle(c.Pkg().Name()+"_"+c.Name())
		return Val{T: g.heapGet(e.st, name, s.SMT()), S: s, G: c.Type()}
	}
	g.errorf("spec: cannot use %s", o.Name())
	return Val{T: "0", S: sInt}
}

// lookupLocal finds the Alloc for a source-level local variable name visible at the current point.
func (g *Gen) lookupLocal(name string, e *SpecEnv) *ssa.Alloc {
	var cands []*ssa.Alloc
	for _, b := range g.fn.Blocks {
		for _, in := range b.Instrs {
			if a, ok := in.(*ssa.Alloc); ok && a.Comment == name {
				cands = append(cands, a)
			}
		}
	}
	if len(cands) == 0 {
		return nil
	}
	if len(cands) == 1 {
		return cands[0]
	}
	// several variables of that name (shadowing): take the innermost declaration enclosing the point
	pos := g.curPos
	if e.atLoop != nil && e.atLoop.stmtPos.IsValid() {
		pos = e.atLoop.stmtPos
	}
	if g.fn.Pkg != nil && pos.IsValid() {
		if sc := g.fn.Pkg.Pkg.Scope().Innermost(pos); sc != nil {
			if _, o := sc.LookupParent(name, pos); o != nil {
				// the implicit variables of a type switch share one position: tell them apart by type
				for _, a := range cands {
					if a.Pos() == o.Pos() && types.Identical(a.Type().(*types.Pointer).Elem(), o.Type()) {
						return a
					}
				}
				for _, a := range cands {
					if a.Pos() == o.Pos() {
						return a
					}
				}
			}
		}
	}
	// fall back: latest declaration before pos
	var best *ssa.Alloc
	for _, a := range cands {
		if a.Pos() <= pos && (best == nil || a.Pos() > best.Pos()) {
			best = a
		}
	}
	if best == nil {
		best = cands[0]
	}
	return best
}

func (e *SpecEnv) evalBin(n EBin) Val {
	g := e.g
	switch n.Op {
	case "&&":
		return Val{T: sAnd(e.evalBool(n.L), e.evalBool(n.R)), S: sBool}
	case "||":
		return Val{T: sOr(e.evalBool(n.L), e.evalBool(n.R)), S: sBool}
	case "==>":
		return Val{T: sImp(e.evalBool(n.L), e.evalBool(n.R)), S: sBool}
	case "<==>":
		return Val{T: sEq(e.evalBool(n.L), e.evalBool(n.R)), S: sBool}
	case "in":
		k := e.eval(n.L)
		m := e.eval(n.R)
		mt, ok := m.G.Underlying().(*types.Map)
		if !ok {
			g.errorf("spec: `in` needs a map: %s", n.String())
			return Val{T: "true", S: sBool}
		}
		k = g.coerce(k, g.sortOf(mt.Key()), mt.Key())
		dn, _ := g.mapNames(mt)
		ds, _ := g.mapSorts(mt)
		hd := g.heapGet(e.st, dn, ds)
		return Val{T: sAnd(sNot(sEq(m.T, "0")), fmt.Sprintf("(select (select %s %s) %s)", hd, m.T, k.T)), S: sBool}
	}
	a, b := e.eval(n.L), e.eval(n.R)
	if a.untyped() && b.untyped() {
		// constant folding
		r := new(big.Int)
		switch n.Op {
		case "+":
			return Val{C: r.Add(a.C, b.C)}
		case "-":
			return Val{C: r.Sub(a.C, b.C)}
		case "*":
			return Val{C: r.Mul(a.C, b.C)}
		case "<<":
			return Val{C: r.Lsh(a.C, uint(b.C.Int64()))}
		case "/":
			return Val{C: r.Quo(a.C, b.C)}
		}
	}
	a, b = g.unify(a, b)
	op := tokOf[n.Op]
	ot := a.G
	if ot == nil {
		ot = b.G
	}
	if ot == nil {
		ot = types.Typ[types.Int]
	}
	rt := ot
	switch op {
	case token.EQL, token.NEQ, token.LSS, token.LEQ, token.GTR, token.GEQ:
		rt = types.Typ[types.Bool]
		// time values and plain ints compare as Ints
	}
	if a.S.K != b.S.K {
		g.errorf("spec: sort mismatch in %s (%s vs %s)", n.String(), a.S.SMT(), b.S.SMT())
		return Val{T: "true", S: sBool}
	}
	if a.S.K == KInt && isTimeType(ot) {
		ot = types.Typ[types.Int]
		if rt != types.Typ[types.Bool] {
			rt = ot
		}
	}
	r := g.binop(op, a, b, ot, rt, nil)
	if rt != types.Typ[types.Bool] && a.S.K == KInt {
		r.G = nil // mathematical integer
		if a.G != nil && b.G != nil {
			r.G = a.G
		}
	}
	return r
}

func (e *SpecEnv) evalSel(n ESel) Val {
	g := e.g
	// package-qualified name?
	if id, ok := n.X.(EIdent); ok {
		if _, bound := e.vars[id.Name]; !bound {
			if pkg := e.pkg(); pkg != nil {
				want := g.W.specImports[pkg.Path()][id.Name]
				for _, imp := range pkg.Imports() {
					if (want == "" && imp.Name() == id.Name) || (want != "" && imp.Path() == want) {
						if _, isVar := e.tryIdent(id.Name); !isVar {
							if o := imp.Scope().Lookup(n.F); o != nil {
								return e.objVal(o)
							}
						}
					}
				}
			}
		}
	}
	x := e.eval(n.X)
	if x.G == nil {
		g.errorf("spec: selector on value of unknown type: %s", n.String())
		return Val{T: "0", S: sInt}
	}
	t := x.G
	viaPtr := false
	if p, ok := t.Underlying().(*types.Pointer); ok {
		t = p.Elem()
		viaPtr = true
	}
	stt, ok := t.Underlying().(*types.Struct)
	if !ok {
		g.errorf("spec: selector %s on non-struct %s", n.F, t)
		return Val{T: "0", S: sInt}
	}
	// find field (including promoted fields through embedded structs)
	path := findField(stt, n.F)
	if path == nil {
		g.errorf("spec: no field %s in %s", n.F, t)
		return Val{T: "0", S: sInt}
	}
	cur := x
	curT := t
	for i, fi := range path {
		cst := curT.Underlying().(*types.Struct)
		if viaPtr {
			name, _, _ := g.fieldMapName(curT, fi)
			hcur, have := e.st.heap[name]
			entry := (!have && e.st.gen == 0) || hcur == "H0_"+name
			cur = g.loadPtr(Val{T: cur.T, S: sPtr}, curT, []step{{k: stField, field: fi}}, e.st)
			viaPtr = false
			if entry && !e.inQuant && i == len(path)-1 && e.calleeFn == nil && e.calleePkg == nil && cur.S.K != KUnit && len(g.inputReads) < 200 && !strings.Contains(n.String(), "(") {
				t := g.define("sr", cur.S, cur.T)
				g.inputReads = append(g.inputReads, inputRead{Path: n.String(), Term: t, Type: cst.Field(fi).Type()})
				g.modelVars = append(g.modelVars, ModelVar{Name: "@" + n.String(), Term: t, Sort: cur.S.SMT()})
			}
		} else {
			cur.G = curT
			cur = g.project(cur, []step{{k: stField, field: fi}})
		}
		curT = cst.Field(fi).Type()
		if i < len(path)-1 {
			if p, ok := curT.Underlying().(*types.Pointer); ok {
				curT = p.Elem()
				viaPtr = true
			}
		}
	}
	return cur
}

func (e *SpecEnv) tryIdent(name string) (Val, bool) {
	if v, ok := e.vars[name]; ok {
		return v, true
	}
	if v, ok := e.st.ghosts[name]; ok {
		return v, true
	}
	if e.calleeFn == nil && e.g.fn != nil {
		if v, ok := e.g.params[name]; ok {
			return v, true
		}
	}
	return Val{}, false
}

func findField(st *types.Struct, name string) []int {
	for i := 0; i < st.NumFields(); i++ {
		if st.Field(i).Name() == name {
			return []int{i}
		}
	}
	for i := 0; i < st.NumFields(); i++ {
		f := st.Field(i)
		if !f.Embedded() {
			continue
		}
		t := f.Type()
		if p, ok := t.Underlying().(*types.Pointer); ok {
			t = p.Elem()
		}
		if in, ok := t.Underlying().(*types.Struct); ok {
			if p := findField(in, name); p != nil {
				return append([]int{i}, p...)
			}
		}
	}
	return nil
}

func (e *SpecEnv) evalIndex(n EIndex) Val {
	g := e.g
	x := e.eval(n.X)
	if x.G == nil && x.S != nil && x.S.K == KArray {
		i := e.eval(n.I)
		i = g.coerce(i, x.S.Idx, nil)
		return Val{T: fmt.Sprintf("(select %s %s)", x.T, i.T), S: x.S.Elem}
	}
	if x.G == nil {
		g.errorf("spec: index on unknown type: %s", n.String())
		return Val{T: "0", S: sInt}
	}
	switch t := x.G.Underlying().(type) {
	case *types.Slice:
		i := e.idxVal(n.I)
		a := &Addr{rk: rElem, arr: fmt.Sprintf("(sl.arr %s)", x.T), idx: g.elemIdx(fmt.Sprintf("(sl.off %s)", x.T), i), typ: t.Elem()}
		if _, isStruct := t.Elem().Underlying().(*types.Struct); isStruct && !isTimeType(t.Elem()) && !isOpaqueStruct(t.Elem()) {
			// element struct: return a pointer so that fields can be selected
			return Val{T: fmt.Sprintf("(pelem %s %s)", a.arr, a.idx), S: sPtr, G: types.NewPointer(t.Elem())}
		}
		return g.loadAddr(a, e.st)
	case *types.Array:
		i := e.idxVal(n.I)
		return Val{T: fmt.Sprintf("(select %s %s)", x.T, i), S: g.sortOf(t.Elem()), G: t.Elem()}
	case *types.Map:
		k := e.eval(n.I)
		k = g.coerce(k, g.sortOf(t.Key()), t.Key())
		dn, vn := g.mapNames(t)
		ds, vs := g.mapSorts(t)
		hd := g.heapGet(e.st, dn, ds)
		hv := g.heapGet(e.st, vn, vs)
		// Go semantics: zero value for absent keys (and for a nil map)
		in := sAnd(sNot(sEq(x.T, "0")), fmt.Sprintf("(select (select %s %s) %s)", hd, x.T, k.T))
		return Val{T: sIte(in, fmt.Sprintf("(select (select %s %s) %s)", hv, x.T, k.T), g.zero(t.Elem()).T), S: g.sortOf(t.Elem()), G: t.Elem()}
	case *types.Basic:
		if x.S.K == KStr {
			i := e.idxVal(n.I)
			return Val{T: fmt.Sprintf("(gstr.at %s %s)", x.T, i), S: g.byteSort(), G: types.Typ[types.Uint8]}
		}
	case *types.Pointer:
		if at, ok := t.Elem().Underlying().(*types.Array); ok {
			arr := g.loadPtr(x, t.Elem(), nil, e.st)
			i := e.idxVal(n.I)
			return Val{T: fmt.Sprintf("(select %s %s)", arr.T, i), S: g.sortOf(at.Elem()), G: at.Elem()}
		}
	}
	g.errorf("spec: cannot index %s", n.String())
	return Val{T: "0", S: sInt}
}

func (e *SpecEnv) evalCall(n ECall) Val {
	g := e.g
	arg := func(i int) Val { return e.eval(n.Args[i]) }
	switch n.Fn {
	case "len", "cap":
		x := arg(0)
		switch x.S.K {
		case KSlice:
			if !e.inQuant {
				// every Go slice value is well-formed (0 <= len <= cap): also the ones a contract reads from the heap
				if w := g.wfFact(x, nil); w != "true" {
					g.assume("true", w)
				}
			}
			return Val{T: fmt.Sprintf("(sl.%s %s)", n.Fn, x.T), S: g.idxSort(), G: types.Typ[types.Int]}
		case KStr:
			return Val{T: fmt.Sprintf("(gstr.len %s)", x.T), S: g.idxSort(), G: types.Typ[types.Int]}
		case KRef:
			if mt, ok := x.G.Underlying().(*types.Map); ok {
				dn, _ := g.mapNames(mt)
				ds, _ := g.mapSorts(mt)
				hd := g.heapGet(e.st, dn, ds)
				return Val{T: sIte(sEq(x.T, "0"), "0", mapLenTerm(g.sortOf(mt.Key()), hd, x.T)), S: sInt, G: types.Typ[types.Int]}
			}
		}
		g.errorf("spec: len of %s", n.Args[0].String())
		return Val{T: "0", S: sInt}
	case "ns":
		return arg(0)
	case "final":
		// final(x): the value of local variable x at this point (postconditions otherwise see entry values of parameters)
		if id, ok := n.Args[0].(EIdent); ok && g.fn != nil {
			c := e.child()
			c.useLocals = true
			if a := g.lookupLocal(id.Name, c); a != nil {
				ad := g.addrs[a]
				if ad == nil && g.isLocal[a] {
					ad = &Addr{rk: rLocal, local: a, typ: a.Type().(*types.Pointer).Elem(), text: a.Comment}
				}
				if ad != nil {
					return g.loadAddr(ad, e.st)
				}
			}
		}
		g.errorf("spec: final() needs a local variable name")
		return Val{T: "0", S: sInt}
	case "abs":
		x := arg(0)
		return Val{T: fmt.Sprintf("(ite (>= %[1]s 0) %[1]s (- %[1]s))", x.T), S: sInt}
	case "emod", "ediv":
		// mathematical (Euclidean) remainder / quotient of SMT-LIB, without Go's truncation case split:
		// for lemmas over mathematical integers (int mode only); equals Go's % and / on non-negative operands
		a, b := arg(0), arg(1)
		if g.bv {
			g.errorf("spec: %s is only available in int mode", n.Fn)
			return Val{T: "0", S: sInt}
		}
		a, b = g.coerce(a, sInt, nil), g.coerce(b, sInt, nil)
		op := "mod"
		if n.Fn == "ediv" {
			op = "div"
		}
		return Val{T: fmt.Sprintf("(%s %s %s)", op, a.T, b.T), S: sInt}
	case "min", "max":
		a, b := g.unify(arg(0), arg(1))
		lt := g.binop(token.LSS, a, b, orInt(a.G), types.Typ[types.Bool], nil)
		if n.Fn == "min" {
			return Val{T: sIte(lt.T, a.T, b.T), S: a.S, G: a.G}
		}
		return Val{T: sIte(lt.T, b.T, a.T), S: a.S, G: a.G}
	case "unchanged":
		now := arg(0)
		c := e.child()
		c.st = e.old
		c.useLocals = false
		was := c.eval(n.Args[0])
		return Val{T: sEq(now.T, was.T), S: sBool}
	case "fresh":
		p := arg(0)
		if e.old == nil {
			g.errorf("fresh() needs an old state")
			return Val{T: "true", S: sBool}
		}
		switch p.S.K {
		case KPtr:
			return Val{T: fmt.Sprintf("(and (is-pobj %[1]s) (> (pobj.id %[1]s) %[2]s))", p.T, e.old.alloc), S: sBool}
		case KSlice:
			return Val{T: fmt.Sprintf("(or (= (sl.arr %[1]s) 0) (> (sl.arr %[1]s) %[2]s))", p.T, e.old.alloc), S: sBool}
		case KRef:
			return Val{T: fmt.Sprintf("(> %s %s)", p.T, e.old.alloc), S: sBool}
		}
	case "allocmark":
		// allocmark(): the allocation counter now (every object allocated later has a larger id)
		return Val{T: e.st.alloc, S: sInt}
	case "objid":
		// objid(p): allocation id of the object p points to (0 for nil); comparable with allocmark()
		p := arg(0)
		if p.S != nil && p.S.K == KPtr {
			return Val{T: fmt.Sprintf("(ite (is-pobj %[1]s) (pobj.id %[1]s) 0)", p.T), S: sInt}
		}
		g.errorf("spec: objid of a non-pointer: %s", n.String())
		return Val{T: "0", S: sInt}
	case "arrayid":
		// arrayid(s): identity of the backing array of slice s (0 for nil); comparable with allocmark()
		p := arg(0)
		if p.S != nil && p.S.K == KSlice {
			return Val{T: fmt.Sprintf("(sl.arr %s)", p.T), S: sInt}
		}
		g.errorf("spec: arrayid of a non-slice: %s", n.String())
		return Val{T: "0", S: sInt}
	case "deref":
		// deref(p): the value a (non-struct) pointer refers to, in the state the expression is evaluated in
		p := arg(0)
		if p.G != nil {
			if pt, ok := p.G.Underlying().(*types.Pointer); ok {
				return g.loadPtr(p, pt.Elem(), nil, e.st)
			}
		}
		g.errorf("spec: deref of a non-pointer: %s", n.String())
		return Val{T: "0", S: sInt}
	case "isnil":
		p := arg(0)
		return Val{T: sEq(p.T, g.nilOf(p).T), S: sBool}
	case "as":
		// as(x, "pkg.Type"): the value of interface x viewed at dynamic type T (meaningful when tagis(x,T))
		x := arg(0)
		tn := n.Args[1].(EStr).V
		t := g.W.lookupType(tn, e.pkg())
		if t == nil {
			g.errorf("spec: unknown type %s", tn)
			return Val{T: "0", S: sInt}
		}
		s := g.sortOf(t)
		unbox := "unbox_" + s.Key()
		box := "box_" + s.Key()
		g.declareFun(box, fmt.Sprintf("(%s) Int", s.SMT()))
		g.declareFun(unbox, fmt.Sprintf("(Int) %s", s.SMT()))
		return Val{T: fmt.Sprintf("(%s (if.val %s))", unbox, x.T), S: s, G: t}
	case "tagis":
		// tagis(x, "pkg.Type"): dynamic type of interface value
		x := arg(0)
		tn := n.Args[1].(EStr).V
		t := g.W.lookupType(tn, e.pkg())
		if t == nil {
			g.errorf("spec: unknown type %s", tn)
			return Val{T: "true", S: sBool}
		}
		return Val{T: fmt.Sprintf("(= (if.tag %s) %d)", x.T, g.typeID(t)), S: sBool}
	case "int", "int64", "int32", "int16", "int8", "uint", "uint64", "uint32", "uint16", "uint8", "byte", "float64", "uintptr":
		x := arg(0)
		tn := n.Fn
		if tn == "byte" {
			tn = "uint8"
		}
		tt := types.Universe.Lookup(tn).Type()
		if x.untyped() {
			return g.coerce(x, g.sortOf(tt), tt)
		}
		ft := x.G
		if ft == nil || isTimeType(ft) {
			if x.S.K == KInt && g.sortOf(tt).K == KInt {
				return Val{T: x.T, S: sInt, G: tt}
			}
			ft = types.Typ[types.Int64]
		}
		if !g.bv && x.S.K == KInt && g.sortOf(tt).K == KInt {
			// mathematical reading in specs
			return Val{T: x.T, S: sInt, G: tt}
		}
		return g.convert(x, ft, tt, e.st)
	case "str":
		// str(b): the string with the bytes of slice b (same term as the Go conversion string(b))
		x := arg(0)
		if x.S.K == KStr {
			return x
		}
		return g.convert(x, types.NewSlice(types.Typ[types.Uint8]), types.Typ[types.String], e.st)
	case "aligned":
		g.declareFun("aligned", "(Int Int) Bool")
		x, d := g.coerce(arg(0), sInt, nil), g.coerce(arg(1), sInt, nil)
		return Val{T: fmt.Sprintf("(aligned %s %s)", x.T, d.T), S: sBool}
	case "wrap64":
		x := arg(0)
		return Val{T: fmt.Sprintf("(- (mod (+ %s 9223372036854775808) 18446744073709551616) 9223372036854775808)", x.T), S: sInt, G: types.Typ[types.Int64]}
	case "f64bits":
		x := arg(0)
		g.declareFun("f64.bits", "((_ FloatingPoint 11 53)) (_ BitVec 64)")
		return Val{T: fmt.Sprintf("(f64.bits %s)", x.T), S: bvSort(64), G: types.Typ[types.Uint64]}
	case "isNaN":
		return Val{T: fmt.Sprintf("(fp.isNaN %s)", arg(0).T), S: sBool}
	case "isInf":
		return Val{T: fmt.Sprintf("(fp.isInfinite %s)", arg(0).T), S: sBool}
	case "visited":
		// visited(k): key k already iterated in the (single) map range of this function
		for _, name := range sortedKeys(e.st.ghosts) {
			v := e.st.ghosts[name]
			if strings.HasPrefix(name, "$visited:") {
				k := arg(0)
				k = g.coerce(k, v.S.Idx, nil)
				return Val{T: fmt.Sprintf("(select %s %s)", v.T, k.T), S: sBool}
			}
		}
		g.errorf("spec: visited() outside a map range")
		return Val{T: "true", S: sBool}
	}
	// user spec functions (inline expansion)
	if sf, sfPkg := g.W.lookupSpecFunc(n.Fn, e.pkg()); sf != nil {
		if len(sf.Params) != len(n.Args) {
			g.errorf("spec: %s expects %d arguments", n.Fn, len(sf.Params))
			return Val{T: "true", S: sBool}
		}
		if sf.Body == nil {
			// uninterpreted
			var sig, args []string
			for i, p := range sf.Params {
				s, t := g.specType(p.Type, e.pkg())
				a := g.coerce(arg(i), s, t)
				sig = append(sig, s.SMT())
				args = append(args, a.T)
			}
			rs, rt := g.specType(sf.Ret, e.pkg())
			fn := "sf_" + sf.Name
			g.declareFun(fn, fmt.Sprintf("(%s) %s", strings.Join(sig, " "), rs.SMT()))
			return Val{T: fmt.Sprintf("(%s %s)", fn, strings.Join(args, " ")), S: rs, G: rt}
		}
		if e.depth > 20 {
			g.errorf("spec: recursion too deep in %s", n.Fn)
			return Val{T: "true", S: sBool}
		}
		c := &SpecEnv{g: g, st: e.st, old: e.old, vars: map[string]Val{}, calleePkg: sfPkg, depth: e.depth + 1}
		if c.calleePkg == nil {
			c.calleePkg = e.pkg()
		}
		for i, p := range sf.Params {
			a := arg(i)
			if a.untyped() {
				s, t := g.specType(p.Type, c.calleePkg)
				a = g.coerce(a, s, t)
			}
			c.vars[p.Name] = a
		}
		// results & ghosts remain visible for heap-dependent predicates
		r := c.eval(sf.Body)
		if r.untyped() {
			s, t := g.specType(sf.Ret, c.calleePkg)
			r = g.coerce(r, s, t)
		}
		return r
	}
	// struct constructor  T{...} not supported; method-style pure calls not supported
	g.errorf("spec: unknown function %s", n.Fn)
	return Val{T: "true", S: sBool}
}

// assignLocs: heap locations denoted by an assigns target: list of (heapvar, location term or "").
func (e *SpecEnv) assignLocs(x Expr) [][2]string {
	g := e.g
	switch n := x.(type) {
	case ESel:
		b := e.eval(n.X)
		if b.G == nil {
			return nil
		}
		t := b.G
		if p, ok := t.Underlying().(*types.Pointer); ok {
			t = p.Elem()
		} else {
			g.errorf("assigns: %s is not a field of a pointer", n.String())
			return nil
		}
		stt, ok := t.Underlying().(*types.Struct)
		if !ok {
			return nil
		}
		path := findField(stt, n.F)
		if len(path) != 1 {
			g.errorf("assigns: cannot resolve field %s", n.String())
			return nil
		}
		name, sort, _ := g.fieldMapName(t, path[0])
		g.heapGet(e.st, name, sort)
		return [][2]string{{name, b.T}}
	case EIndex:
		b := e.eval(n.X)
		if b.G == nil {
			return nil
		}
		switch t := b.G.Underlying().(type) {
		case *types.Slice:
			var out [][2]string
			if stt, ok := t.Elem().Underlying().(*types.Struct); ok && !isTimeType(t.Elem()) && !isOpaqueStruct(t.Elem()) {
				for i := 0; i < stt.NumFields(); i++ {
					name, sort, _ := g.fieldMapName(t.Elem(), i)
					g.heapGet(e.st, name, sort)
					out = append(out, [2]string{name, ""})
				}
				return out
			}
			name, sort := g.elemMapName(g.sortOf(t.Elem()))
			g.heapGet(e.st, name, sort)
			return [][2]string{{name, fmt.Sprintf("(sl.arr %s)", b.T)}}
		case *types.Map:
			dn, vn := g.mapNames(t)
			ds, vs := g.mapSorts(t)
			g.heapGet(e.st, dn, ds)
			g.heapGet(e.st, vn, vs)
			return [][2]string{{dn, b.T}, {vn, b.T}}
		}
	case EIdent:
		if tn, ok := g.W.globalGhosts[n.Name]; ok {
			s, _ := g.specType(tn, e.pkg())
			g.heapGet(e.st, "GG_"+n.Name, s.SMT())
			return [][2]string{{"GG_" + n.Name, ""}}
		}
		b := e.eval(n)
		if b.G != nil {
			if p, ok := b.G.Underlying().(*types.Pointer); ok {
				var out [][2]string
				if stt, ok := p.Elem().Underlying().(*types.Struct); ok {
					for i := 0; i < stt.NumFields(); i++ {
						name, sort, _ := g.fieldMapName(p.Elem(), i)
						g.heapGet(e.st, name, sort)
						out = append(out, [2]string{name, b.T})
					}
					return out
				}
			}
		}
	}
	g.errorf("assigns: unsupported target %s", x.String())
	return nil
}
