package main

import (
	"encoding/json"
	"fmt"
	"os"
	"path/filepath"
	"sort"
	"strings"
	"time"
)

type Evidence struct {
	PropertyID  string         `json:"property_id"`
	Tier        string         `json:"tier"`
	Seed        int            `json:"seed"`
	Level       string         `json:"level"`
	Coverage    map[string]any `json:"coverage"`
	Assumptions []string       `json:"assumptions"`
	WallS       float64        `json:"wall_s"`
	Violations  int            `json:"violations"`
}

func writeEvidence(prop string, ev *Evidence) {
	os.MkdirAll(filepath.Join(outRoot(), "evidence"), 0o755)
	data, _ := json.MarshalIndent(ev, "", " ")
	os.WriteFile(filepath.Join(outRoot(), "evidence", prop+".json"), data, 0o644)
}

func toolFailure(prop, tier string, seed int, t0 time.Time, msg string) int {
	ev := &Evidence{PropertyID: prop, Tier: tier, Seed: seed, Level: "proof", WallS: time.Since(t0).Seconds(), Violations: 0,
		Coverage:    map[string]any{"obligations": 0, "discharged": 0, "checker_cmd": "gvc check -prop " + prop, "trusted_base": []string{}, "explanation": "TOOL FAILURE: " + msg},
		Assumptions: []string{"tool failure: nothing was checked"}}
	writeEvidence(prop, ev)
	fmt.Println("gvc: TOOL FAILURE (exit 2):", msg)
	return 2
}

type ReplayFile struct {
	Property   string            `json:"property"`
	Obligation string            `json:"obligation"`
	Desc       string            `json:"description"`
	Pos        string            `json:"position"`
	Status     string            `json:"status"`
	Solver     string            `json:"solver"`
	Model      map[string]string `json:"model,omitempty"`
	SolverOut  string            `json:"solver_output"`
	Replay     *ReplayOutcome    `json:"replay,omitempty"`
	Query      string            `json:"smt_query"`
}

func report(w *World, prop, tier string, seed int, t0 time.Time, gens []*Gen, trusted []*FuncSpec, clauses []ClauseStatus, worst func(string) *Result,
	claims map[string]bool, kfs []KnownFinding, genErrs []string, solverMs int64, bySolver map[string]int,
	tLoad, tGen, tSolve time.Duration, verbose bool, partial bool) int {

	known := map[string]KnownFinding{}
	for _, k := range kfs {
		if k.Property == prop && k.Fixed == "" {
			known[k.Obligation] = k
		}
	}
	byKey := map[string]ClauseStatus{}
	for _, c := range clauses {
		byKey[c.Key] = c
	}
	type violation struct {
		key, why string
		res      *Result
	}
	var viols []violation
	var knownHit []KnownFinding
	nClaimed, nDischarged := 0, 0
	var unclaimed []ClauseStatus
	var claimedList []ClauseStatus
	for _, c := range clauses {
		if claims[c.Key] {
			nClaimed++
			claimedList = append(claimedList, c)
			if c.Status == "discharged" {
				nDischarged++
			} else if kf, ok := known[c.Key]; ok {
				knownHit = append(knownHit, kf)
			} else {
				viols = append(viols, violation{c.Key, "claimed obligation no longer discharges (" + c.Status + ")", worst(c.Key)})
			}
			continue
		}
		if kf, ok := known[c.Key]; ok {
			if c.Status != "discharged" {
				knownHit = append(knownHit, kf)
			}
			continue
		}
		if strings.HasSuffix(c.Key, ".outside") {
			if _, ok := known[strings.TrimSuffix(c.Key, ".outside")]; ok {
				// the known finding's clause must hold outside the recorded witness class
				if c.Status != "discharged" {
					viols = append(viols, violation{c.Key, "obligation fails outside the recorded known-finding class (" + c.Status + "): a different violation", worst(c.Key)})
				} else {
					nClaimed++
					nDischarged++
					claimedList = append(claimedList, c)
				}
				continue
			}
		}
		unclaimed = append(unclaimed, c)
	}
	// claimed clauses that generated no instance (function/loop/clause disappeared)
	if !partial {
		for k := range claims {
			if _, ok := byKey[k]; !ok {
				viols = append(viols, violation{k, "claimed obligation has zero instances: the code or contract it spoke about is gone (contract drift)", nil})
			}
		}
		for k, kf := range known {
			if _, ok := byKey[k]; !ok {
				// known finding whose obligation vanished: report as note only
				_ = kf
			}
		}
	}
	sort.Slice(viols, func(i, j int) bool { return viols[i].key < viols[j].key })
	// generation errors make the run unusable (tool error) unless they only affect unclaimed functions
	exit := 0
	if len(genErrs) > 0 {
		for i, e := range genErrs {
			if i >= 4 {
				fmt.Printf("gvc: ... %d more generation errors\n", len(genErrs)-i)
				break
			}
			fmt.Println("gvc: generation error:", truncate(strings.ReplaceAll(e, "\n", " "), 300))
		}
	}

	// replay files + VIOLATION lines
	os.MkdirAll(filepath.Join(outRoot(), "replay", prop), 0o755)
	for vi, v := range viols {
		rf := &ReplayFile{Property: prop, Obligation: v.key, Status: v.why}
		suffix := " no-failing-input-found"
		if v.res != nil {
			rf.Desc, rf.Pos, rf.Solver, rf.Model, rf.SolverOut, rf.Query = v.res.O.Desc, v.res.O.Pos, v.res.Solver, v.res.Model, v.res.Output, v.res.Query
			if v.res.Status == "refuted" {
				out := tryReplay(w, prop, v.key, v.res)
				rf.Replay = out
				if out != nil && out.Confirmed {
					suffix = ""
				}
			}
		}
		path := filepath.Join(outRoot(), "replay", prop, mangle(v.key)+".json")
		data, _ := json.MarshalIndent(rf, "", " ")
		os.WriteFile(path, data, 0o644)
		if vi < 12 {
			fmt.Printf("VIOLATION property=%s replay=%s obligation=%s reason=%q%s\n", prop, path, v.key, v.why, suffix)
		} else if vi == 12 {
			fmt.Printf("gvc: ... %d further violations (replay files written under %s)\n", len(viols)-12, filepath.Join(outRoot(), "replay", prop))
		}
		exit = 1
	}
	for _, e := range genErrs {
		if strings.Contains(e, "contract drift") || strings.Contains(e, "VACUOUS") || true {
			path := filepath.Join(outRoot(), "replay", prop, "generation_error.json")
			data, _ := json.MarshalIndent(map[string]any{"property": prop, "errors": genErrs}, "", " ")
			os.WriteFile(path, data, 0o644)
			fmt.Printf("VIOLATION property=%s replay=%s reason=%q no-failing-input-found\n", prop, path, "verifier could not process the code under contract: "+e)
			exit = 1
			break
		}
	}
	seenKF := map[string]bool{}
	for _, kf := range knownHit {
		if seenKF[kf.Obligation] {
			continue
		}
		seenKF[kf.Obligation] = true
		fmt.Printf("KNOWN-FINDING: property=%s %s [%s]\n", prop, kf.What, kf.Obligation)
	}

	// evidence
	var fuc []string
	trustedBase := []string{"go/packages + go/types + go/ssa (x/tools v0.29.0): SSA is a faithful lowering of the source", "SMT solvers z3 4.8.12, z3 5.1.0 (z3-new), cvc5 1.0: unsat answers are correct"}
	assumptions := []string{
		"sequential semantics: locks/atomics are modelled without interleaving; goroutines, channels, select are not modelled",
		"calls to functions without a contract are havoc'd (arbitrary heap effect, unconstrained results): sound for safety of the caller's obligations but their panics/termination are not considered",
		"int-mode functions: machine integers are mathematical; every + - * carries a no-wraparound side obligation which is claimed only where it discharges (see unclaimed list)",
		"allocation never fails; stack depth unbounded; failpoint injections are no-ops",
	}
	noteSet := map[string]bool{}
	havoc := map[string]int{}
	usedSpecs := map[string]bool{}
	for _, g := range gens {
		fuc = append(fuc, g.key)
		for _, n := range g.notes {
			noteSet[n] = true
		}
		for k, v := range g.havocCalls {
			havoc[k] += v
		}
		for k := range g.usedSpecs {
			usedSpecs[k] = true
		}
	}
	for _, n := range sortedKeys(noteSet) {
		assumptions = append(assumptions, n)
	}
	for _, g := range gens {
		if g.spec != nil && g.spec.TrustedFrame {
			trustedBase = append(trustedBase, "TRUSTED frame (assigns clause assumed, not checked): "+g.key)
		}
	}
	for _, s := range trusted {
		trustedBase = append(trustedBase, fmt.Sprintf("TRUSTED contract (body not verified): %s::%s %s", s.Pkg, s.Name, strings.Join(s.Notes, "; ")))
	}
	for _, s := range w.allSpecs {
		if s.Trusted && usedSpecs[s.Pkg+"::"+s.Name] && !hasProp(s.Props, prop) {
			trustedBase = append(trustedBase, fmt.Sprintf("TRUSTED callee contract assumed: %s::%s", s.Pkg, s.Name))
		}
	}
	for _, l := range sortedKeys(w.usedLib) {
		trustedBase = append(trustedBase, "library model (DESIGN §4): "+l)
	}
	var havocList []string
	for _, k := range sortedKeys(havoc) {
		havocList = append(havocList, fmt.Sprintf("%s ×%d", k, havoc[k]))
	}
	samples := []any{}
	for i, c := range claimedList {
		if i >= 3 {
			break
		}
		s := map[string]any{"obligation": c.Key, "class": c.Class, "description": c.Desc, "status": c.Status, "solver": c.Solver, "ms": c.Ms, "instances": c.Instances}
		if r := worst(c.Key); r != nil {
			s["smt_head"] = truncate(r.Query, 600)
		}
		samples = append(samples, s)
	}
	if len(samples) == 0 {
		samples = append(samples, "no claimed obligations")
	}
	unclaimedOut := []any{}
	for _, c := range unclaimed {
		unclaimedOut = append(unclaimedOut, map[string]any{"obligation": c.Key, "status": c.Status, "description": c.Desc, "pos": c.Pos, "implicit": c.Implicit})
	}
	kfOut := []any{}
	for _, kf := range knownHit {
		kfOut = append(kfOut, kf)
	}
	ev := &Evidence{PropertyID: prop, Tier: tier, Seed: seed, Level: "proof", WallS: time.Since(t0).Seconds(), Violations: len(viols),
		Assumptions: assumptions,
		Coverage: map[string]any{
			"obligations":              nClaimed,
			"discharged":               nDischarged,
			"checker_cmd":              fmt.Sprintf("bin/gvc check -prop %s -tier %s", prop, tier),
			"trusted_base":             trustedBase,
			"functions_under_contract": fuc,
			"claimed_clauses":          claimedList,
			"unclaimed":                unclaimedOut,
			"known_findings_hit":       kfOut,
			"havoced_calls":            havocList,
			"discharged_by_solver":     bySolver,
			"solver_ms_total":          solverMs,
			"load_s":                   tLoad.Seconds(),
			"vcgen_s":                  tGen.Seconds(),
			"solve_s":                  tSolve.Seconds(),
			"generation_errors":        genErrs,
			"samples":                  samples,
			"explanation":              "WP over naive-form go/ssa of the real functions in /repo; contracts from //@ lines in zz_verif_contracts.go (build tag verif); one SMT query per obligation instance; a clause counts as discharged only if every instance is unsat",
		}}
	writeEvidence(prop, ev)
	fmt.Printf("gvc: property %s tier %s: %d functions, %d claimed clauses, %d discharged, %d unclaimed generated, %d known findings, %d violations; load %.1fs gen %.1fs solve %.1fs\n",
		prop, tier, len(gens), nClaimed, nDischarged, len(unclaimed), len(seenKF), len(viols), tLoad.Seconds(), tGen.Seconds(), tSolve.Seconds())
	if verbose {
		for _, c := range unclaimed {
			if c.Status != "discharged" {
				fmt.Printf("  unclaimed %s: %s — %s @%s\n", c.Status, c.Key, c.Desc, c.Pos)
			}
		}
	}
	return exit
}

// outRoot is where evidence and replay files are written: /verif, unless a scratch run redirects it (GVC_OUT).
func outRoot() string {
	if v := os.Getenv("GVC_OUT"); v != "" {
		return v
	}
	return verifRoot
}
