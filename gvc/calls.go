package main

import (
	"os"
	"fmt"
	"go/types"
	"strings"

	"golang.org/x/tools/go/ssa"
)

type deferred struct {
	call  *ssa.CallCommon
	reach string
	args  []Val
	instr *ssa.Defer
}

var deferStacks = map[*Gen][]deferred{}

func (g *Gen) execDefer(x *ssa.Defer, st *State) {
	c := x.Common()
	var args []Val
	for _, a := range c.Args {
		if _, isAddr := g.addrs[a]; isAddr {
			args = append(args, Val{})
			continue
		}
		args = append(args, g.val(a, st))
	}
	deferStacks[g] = append(deferStacks[g], deferred{call: c, reach: st.reach, args: args, instr: x})
}

func (g *Gen) runDefers(st *State) {
	ds := deferStacks[g]
	for i := len(ds) - 1; i >= 0; i-- {
		d := ds[i]
		// the deferred call runs iff its registration point was reached on this path
		name := calleeName(d.call)
		// only ghost-relevant effects are modelled: call rules (lock release etc.)
		sub := st.clone()
		sub.reach = sAnd(st.reach, d.reach)
		g.fireCallRulesCond(d.call, nil, st, d.reach, "defer ")
		_ = name
		_ = sub
		if callee := d.call.StaticCallee(); callee != nil {
			if isSyncFn(callee) {
				continue
			}
			if _, isAnon := callee.Syntax().(interface{ End() int }); isAnon {
			}
			g.note(fmt.Sprintf("deferred call to %s in %s: only call rules are applied; other effects not modelled", callee.String(), g.key))
		}
	}
}

func isSyncFn(f *ssa.Function) bool {
	return f.Pkg != nil && (f.Pkg.Pkg.Path() == "sync" || f.Pkg.Pkg.Path() == "sync/atomic")
}

func calleeName(c *ssa.CallCommon) string {
	if c.IsInvoke() {
		return "(" + types.TypeString(c.Value.Type(), func(p *types.Package) string { return p.Name() }) + ")." + c.Method.Name()
	}
	if f := c.StaticCallee(); f != nil {
		return f.String()
	}
	if b, ok := c.Value.(*ssa.Builtin); ok {
		return b.Name()
	}
	return "<dynamic:" + c.Value.Name() + ">"
}

// ruleMatches: does call rule pattern match this call?
func (g *Gen) ruleMatches(r *CallRule, c *ssa.CallCommon, prefix string) bool {
	if r.IsStore {
		return false
	}
	pat := r.Pattern
	if strings.HasPrefix(pat, "go ") || strings.HasPrefix(pat, "defer ") {
		if !strings.HasPrefix(pat, prefix) || prefix == "" {
			return false
		}
		pat = strings.TrimSpace(strings.TrimPrefix(pat, prefix))
	}
	var names []string
	if c.IsInvoke() {
		names = append(names, "."+c.Method.Name(), c.Method.Name())
		tn := types.TypeString(c.Value.Type(), func(p *types.Package) string { return p.Name() })
		names = append(names, tn+"."+c.Method.Name())
		if i := strings.LastIndex(tn, "."); i >= 0 {
			names = append(names, tn[i+1:]+"."+c.Method.Name())
		}
	} else if f := c.StaticCallee(); f != nil {
		full := f.String()
		names = append(names, full, f.Name())
		if f.Pkg != nil {
			rel := f.RelString(f.Pkg.Pkg)
			names = append(names, rel, normName(rel), f.Pkg.Pkg.Name()+"."+f.Name())
			if recv := f.Signature.Recv(); recv != nil {
				names = append(names, "."+f.Name())
				tn := types.TypeString(recv.Type(), func(p *types.Package) string { return p.Name() })
				names = append(names, "("+tn+")."+f.Name())
			}
		} else if recv := f.Signature.Recv(); recv != nil {
			names = append(names, "."+f.Name())
		}
	} else if b, ok := c.Value.(*ssa.Builtin); ok {
		names = append(names, b.Name())
	} else {
		// dynamic call through a variable / field: match on its source text
		names = append(names, g.textOf(c.Value), "."+lastSeg(g.textOf(c.Value)))
	}
	// generic callees are named with their type arguments (Assign[T]): also offer the bare name
	for _, n := range names {
		if strings.HasSuffix(n, "]") {
			if i := strings.LastIndex(n, "["); i > 0 {
				names = append(names, n[:i])
			}
		}
	}
	if os.Getenv("GVC_DEBUG_CALLS") != "" {
		fmt.Fprintf(os.Stderr, "call names for rule %q: %q\n", pat, names)
	}
	for _, n := range names {
		if n == pat {
			return true
		}
	}
	return false
}

func lastSeg(s string) string {
	if i := strings.LastIndex(s, "."); i >= 0 {
		return s[i+1:]
	}
	return s
}

func normName(rel string) string {
	// "(T).M" -> "T.M" ; "(*T).M" stays
	if strings.HasPrefix(rel, "(") && !strings.HasPrefix(rel, "(*") {
		if i := strings.Index(rel, ")"); i > 0 {
			return rel[1:i] + rel[i+1:]
		}
	}
	return rel
}

func (g *Gen) fireCallRules(c *ssa.CallCommon, results []Val, st *State, prefix string) {
	g.fireCallRulesCond(c, results, st, "true", prefix)
}

// fireCallRulesPre: evaluate `requires` of matching rules before the call.
func (g *Gen) callRulesPre(c *ssa.CallCommon, st *State, prefix string) []*CallRule {
	if g.spec == nil {
		return nil
	}
	var matched []*CallRule
	for _, r := range g.spec.Calls {
		if !g.ruleMatches(r, c, prefix) {
			continue
		}
		if r.On != "" {
			recvText := ""
			if c.IsInvoke() {
				recvText = g.textOf(c.Value)
			} else if len(c.Args) > 0 {
				recvText = g.textOf(c.Args[0])
			}
			if recvText != r.On {
				continue
			}
		}
		if r.With != "" {
			found := false
			for _, a := range c.Args {
				if g.textOf(a) == r.With {
					found = true
				}
			}
			if !found {
				continue
			}
		}
		r.Matched++
		matched = append(matched, r)
		env := g.specEnv(st, g.entry)
		env.useLocals = true
		g.bindCallArgs(env, c, st)
		for _, cl := range r.Requires {
			g.oblige(cl.Label, "B", fmt.Sprintf("at call of %s: %s", calleeName(c), cl.Src), st.reach, env.evalBool(cl.E), false)
		}
	}
	return matched
}

func (g *Gen) bindCallArgs(env *SpecEnv, c *ssa.CallCommon, st *State) {
	args := c.Args
	k := 0
	if c.IsInvoke() {
		env.vars["recv"] = g.val(c.Value, st)
	} else if f := c.StaticCallee(); f != nil && f.Signature.Recv() != nil && len(args) > 0 {
		if _, isAddr := g.addrs[args[0]]; !isAddr || g.canMaterialize(args[0], st) {
			env.vars["recv"] = g.val(args[0], st)
		}
		args = args[1:]
	}
	for _, a := range args {
		if _, isAddr := g.addrs[a]; isAddr && !g.canMaterialize(a, st) {
			k++
			continue
		}
		env.vars[fmt.Sprintf("arg%d", k)] = g.val(a, st)
		k++
	}
}

func (g *Gen) canMaterialize(v ssa.Value, st *State) bool {
	a, ok := g.addrs[v]
	if !ok {
		return true
	}
	_, ok = g.materialize(a, st)
	return ok
}

func (g *Gen) callRulesPost(matched []*CallRule, c *ssa.CallCommon, results []Val, st *State, cond string) {
	for _, r := range matched {
		env := g.specEnv(st, g.entry)
		env.useLocals = true
		g.bindCallArgs(env, c, st)
		for i, rv := range results {
			env.vars[fmt.Sprintf("ret%d", i)] = rv
		}
		if len(results) > 0 {
			env.vars["ret"] = results[0]
			env.vars["err"] = results[len(results)-1]
		}
		for _, cl := range r.Assume {
			g.assume(st.reach, env.evalBool(cl.E))
			g.note(fmt.Sprintf("assumed at call of %s in %s: %s", calleeName(c), g.key, cl.Src))
		}
		for _, s := range r.Sets {
			if tn, isG := g.W.globalGhosts[s.Var]; isG {
				srt, gt := g.specType(tn, g.fn.Pkg.Pkg)
				old := g.heapGet(st, "GG_"+s.Var, srt.SMT())
				nv := g.coerce(env.eval(s.E), srt, gt)
				st.heap["GG_"+s.Var] = g.define("gg", srt, sIte(cond, nv.T, old))
				continue
			}
			old, ok := st.ghosts[s.Var]
			if !ok {
				g.errorf("set of undeclared ghost %s", s.Var)
				continue
			}
			nv := env.eval(s.E)
			nv = g.coerce(nv, old.S, old.G)
			t := sIte(cond, nv.T, old.T)
			st.ghosts[s.Var] = Val{T: g.define("gh", old.S, t), S: old.S, G: old.G}
		}
	}
}

func (g *Gen) fireCallRulesCond(c *ssa.CallCommon, results []Val, st *State, cond, prefix string) {
	m := g.callRulesPre(c, st, prefix)
	g.callRulesPost(m, c, results, st, cond)
}

// checkStoreRules: protocol rules on stores to struct fields (`store T.f`).
func (g *Gen) checkStoreRules(x *ssa.Store, a *Addr, v Val, st *State) {
	if g.spec == nil {
		return
	}
	fa, ok := x.Addr.(*ssa.FieldAddr)
	if !ok {
		return
	}
	stt := fa.X.Type().Underlying().(*types.Pointer).Elem()
	tn := types.TypeString(stt, func(p *types.Package) string { return "" })
	fname := stt.Underlying().(*types.Struct).Field(fa.Field).Name()
	for _, r := range g.spec.Calls {
		if !r.IsStore {
			continue
		}
		if r.Pattern != tn+"."+fname && r.Pattern != "."+fname && r.Pattern != a.text {
			continue
		}
		r.Matched++
		env := g.specEnv(st, g.entry)
		env.useLocals = true
		env.vars["val"] = v
		// obj: the struct whose field is written (usable as obj.OtherField in the rule)
		if ov := g.val(fa.X, st); ov.S != nil && ov.S.K == KPtr {
			ov.G = fa.X.Type()
			env.vars["obj"] = ov
		}
		for _, cl := range r.Requires {
			g.oblige(cl.Label, "B", fmt.Sprintf("at store to %s: %s", a.text, cl.Src), st.reach, env.evalBool(cl.E), false)
		}
		for _, s := range r.Sets {
			old, ok := st.ghosts[s.Var]
			if !ok {
				g.errorf("set of undeclared ghost %s", s.Var)
				continue
			}
			nv := g.coerce(env.eval(s.E), old.S, old.G)
			st.ghosts[s.Var] = Val{T: g.define("gh", old.S, nv.T), S: old.S, G: old.G}
		}
	}
}

// ---------------------------------------------------------------- calls

func (g *Gen) execCall(x *ssa.Call, c *ssa.CallCommon, st *State, deferred bool) {
	if b, ok := c.Value.(*ssa.Builtin); ok {
		var matched []*CallRule
		if b.Name() == "append" || b.Name() == "delete" || b.Name() == "copy" || b.Name() == "len" {
			matched = g.callRulesPre(c, st, "")
		}
		g.execBuiltin(x, b, c, st)
		if len(matched) > 0 {
			var res []Val
			if v, ok := g.vals[x]; ok {
				res = []Val{v}
			}
			g.callRulesPost(matched, c, res, st, "true")
		}
		return
	}
	matched := g.callRulesPre(c, st, "")
	g.frameNothing = false
	for _, r := range matched {
		if r.FrameNothing {
			g.frameNothing = true
			g.note(fmt.Sprintf("ASSUMED frame: calls matching %q in %s write no caller-visible location", r.Pattern, g.key))
		}
	}
	results := g.doCall(x, c, st)
	g.frameNothing = false
	g.callRulesPost(matched, c, results, st, "true")
}

func (g *Gen) setResults(x *ssa.Call, results []Val) {
	sig := x.Call.Signature()
	switch sig.Results().Len() {
	case 0:
	case 1:
		if len(results) == 1 {
			g.vals[x] = results[0]
		}
	default:
		g.tuples[x] = results
	}
}

func (g *Gen) doCall(x *ssa.Call, c *ssa.CallCommon, st *State) []Val {
	sig := c.Signature()
	// library models
	if f := c.StaticCallee(); f != nil {
		if res, ok := g.libModel(f, c, st); ok {
			g.setResults(x, res)
			return res
		}
	}
	// contracts
	var spec *FuncSpec
	if f := c.StaticCallee(); f != nil {
		spec = g.W.specFor(f)
		if spec != nil && g.spec != nil {
			for _, o := range g.spec.Opaque {
				if o == f.Name() || o == spec.Name {
					spec = nil
					break
				}
			}
		}
	} else if c.IsInvoke() {
		spec = g.W.specForMethod(c.Value.Type(), c.Method)
	}
	if spec != nil {
		res := g.applyContract(spec, c, st)
		g.setResults(x, res)
		return res
	}
	// unknown callee: havoc
	name := calleeName(c)
	g.havocCalls[name]++
	pure := false
	if f := c.StaticCallee(); f != nil && g.W.isPureLib(f) {
		pure = true
	}
	if c.IsInvoke() {
		if n, ok := c.Value.Type().(*types.Named); ok && n.Obj().Pkg() != nil {
			switch n.Obj().Pkg().Path() {
			case "go.uber.org/zap", "go.uber.org/zap/zapcore", "github.com/openGemini/openGemini/lib/logger":
				pure = true
			}
		}
	}
	if !pure && !g.frameNothing {
		g.havocForCall(c, st)
	}
	var res []Val
	for i := 0; i < sig.Results().Len(); i++ {
		res = append(res, g.freshVal("r_"+mangle(lastSeg(name)), sig.Results().At(i).Type(), st, st.reach))
	}
	g.setResults(x, res)
	return res
}

// havocForCall: an uncontracted call may write any heap location reachable from its arguments;
// over-approximated by all heap maps. Locals whose address was passed are havoc'd too.
func (g *Gen) havocForCall(c *ssa.CallCommon, st *State) { g.havocForCallG(c, st, false) }

func (g *Gen) havocForCallG(c *ssa.CallCommon, st *State, ghosts bool) {
	g.havocHeapG(st, nil, ghosts)
	for _, a := range c.Args {
		if ad, ok := g.addrs[a]; ok {
			g.havocAddr(ad, st)
		}
	}
}

func (g *Gen) havocAddr(a *Addr, st *State) {
	cur := g.loadAddr(a, st)
	if cur.G == nil {
		return
	}
	nv := g.freshVal("hv", cur.G, st, st.reach)
	g.storeAddr(a, nv, st)
}

// callAssignable: for loop havoc computation; returns false if the call may write anything.
func (g *Gen) callAssignable(ci ssa.CallInstruction, names map[string]bool) bool {
	c := ci.Common()
	if b, ok := c.Value.(*ssa.Builtin); ok {
		switch b.Name() {
		case "append", "copy":
			if len(c.Args) > 0 {
				if sl, ok := c.Args[0].Type().Underlying().(*types.Slice); ok {
					g.addElemTargets(sl.Elem(), names)
					names["$alloc"] = true
				}
			}
			return true
		case "delete":
			if mt, ok := c.Args[0].Type().Underlying().(*types.Map); ok {
				d, v := g.mapNames(mt)
				names[d], names[v] = true, true
			}
			return true
		}
		return true
	}
	if f := c.StaticCallee(); f != nil {
		if g.isLibPure(f) {
			return true
		}
		if isSyncFn(f) {
			return true
		}
		spec := g.W.specFor(f)
		if spec != nil && spec.HasAssigns {
			for _, a := range spec.Assigns {
				if a.All || a.Elems {
					return false
				}
				if a.Map != "" {
					names[g.resolveMapNameIn(a.Map, f)] = true
					continue
				}
				for _, n := range g.assignMapNames(a.Expr, f) {
					names[n] = true
				}
			}
			names["$alloc"] = true
			return true
		}
		if g.W.isPureLib(f) {
			return true
		}
	}
	return false
}

func (g *Gen) isLibPure(f *ssa.Function) bool {
	switch f.String() {
	case "time.Now", "(time.Time).Add", "(time.Time).Before", "(time.Time).After", "(time.Time).Equal", "(time.Time).UTC",
		"(time.Time).UnixNano", "(time.Time).IsZero", "time.Unix", "(time.Time).Sub", "(time.Time).Truncate", "(time.Time).Unix",
		"math.Float64bits", "math.Float64frombits", "math.Float32bits", "math.Float32frombits", "math.IsNaN", "math.IsInf",
		"errors.New", "fmt.Errorf", "fmt.Sprintf", "(time.Duration).Nanoseconds", "(time.Duration).Seconds", "time.Since":
		return true
	}
	return false
}

func (g *Gen) resolveMapNameIn(s string, f *ssa.Function) string {
	parts := strings.SplitN(s, "::", 2)
	tn, fld := strings.TrimSpace(parts[0]), strings.TrimSpace(parts[1])
	if f.Pkg != nil {
		if obj := f.Pkg.Pkg.Scope().Lookup(tn); obj != nil {
			if stt, ok := obj.Type().Underlying().(*types.Struct); ok {
				for i := 0; i < stt.NumFields(); i++ {
					if stt.Field(i).Name() == fld {
						n, _, _ := g.fieldMapName(obj.Type(), i)
						return n
					}
				}
			}
		}
	}
	return s
}

// assignMapNames: heap map names for an assigns target expression of callee f (types from f's signature).
func (g *Gen) assignMapNames(e Expr, f *ssa.Function) []string {
	// resolve the static type of the path
	var typeOf func(e Expr) types.Type
	typeOf = func(e Expr) types.Type {
		switch x := e.(type) {
		case EIdent:
			for _, p := range f.Params {
				if p.Name() == x.Name {
					return p.Type()
				}
			}
			if f.Pkg != nil {
				if o := f.Pkg.Pkg.Scope().Lookup(x.Name); o != nil {
					return o.Type()
				}
			}
		case ESel:
			bt := typeOf(x.X)
			if bt == nil {
				return nil
			}
			if p, ok := bt.Underlying().(*types.Pointer); ok {
				bt = p.Elem()
			}
			if stt, ok := bt.Underlying().(*types.Struct); ok {
				for i := 0; i < stt.NumFields(); i++ {
					if stt.Field(i).Name() == x.F {
						return stt.Field(i).Type()
					}
				}
			}
		case EIndex:
			bt := typeOf(x.X)
			if bt == nil {
				return nil
			}
			switch u := bt.Underlying().(type) {
			case *types.Slice:
				return u.Elem()
			case *types.Map:
				return u.Elem()
			case *types.Array:
				return u.Elem()
			}
		}
		return nil
	}
	switch x := e.(type) {
	case ESel:
		bt := typeOf(x.X)
		if bt == nil {
			return nil
		}
		if p, ok := bt.Underlying().(*types.Pointer); ok {
			bt = p.Elem()
		}
		if stt, ok := bt.Underlying().(*types.Struct); ok {
			for i := 0; i < stt.NumFields(); i++ {
				if stt.Field(i).Name() == x.F {
					n, _, _ := g.fieldMapName(bt, i)
					return []string{n}
				}
			}
		}
	case EIndex:
		bt := typeOf(x.X)
		if bt == nil {
			return nil
		}
		switch u := bt.Underlying().(type) {
		case *types.Slice:
			m := map[string]bool{}
			g.addElemTargets(u.Elem(), m)
			return sortedKeys(m)
		case *types.Map:
			d, v := g.mapNames(u)
			return []string{d, v}
		}
	case EIdent:
		bt := typeOf(x)
		if bt != nil {
			if p, ok := bt.Underlying().(*types.Pointer); ok {
				m := map[string]bool{}
				g.addTypeTargets(p.Elem(), m)
				return sortedKeys(m)
			}
		}
	}
	return nil
}

// applyContract: assert requires, havoc assigns, assume ensures.
func (g *Gen) applyContract(spec *FuncSpec, c *ssa.CallCommon, st *State) []Val {
	key := spec.Pkg + "::" + spec.Name
	g.usedSpecs[key] = true
	sig := c.Signature()
	// bind parameters
	bind := map[string]Val{}
	var copyBack []copyBackItem
	var paramNames []string
	var callee *ssa.Function
	if callee = c.StaticCallee(); callee != nil {
		for _, p := range callee.Params {
			paramNames = append(paramNames, p.Name())
		}
		if len(callee.Params) == 0 {
			// function without a body (package loaded from export data): names from the signature
			if r := callee.Signature.Recv(); r != nil {
				paramNames = append(paramNames, r.Name())
			}
			for i := 0; i < callee.Signature.Params().Len(); i++ {
				paramNames = append(paramNames, callee.Signature.Params().At(i).Name())
			}
		}
	} else {
		// interface method: receiver named "recv", params by signature names
		paramNames = append(paramNames, "recv")
		for i := 0; i < sig.Params().Len(); i++ {
			n := sig.Params().At(i).Name()
			if n == "" {
				n = fmt.Sprintf("arg%d", i)
			}
			paramNames = append(paramNames, n)
		}
	}
	var args []ssa.Value
	if c.IsInvoke() {
		args = append(args, c.Value)
	}
	args = append(args, c.Args...)
	for i, a := range args {
		if i >= len(paramNames) {
			break
		}
		if ad, isAddr := g.addrs[a]; isAddr {
			if m, ok := g.materialize(ad, st); ok {
				m.G = a.Type()
				bind[paramNames[i]] = m
			} else if pt, ok := a.Type().Underlying().(*types.Pointer); ok {
				// address of a local / field: copy the value into a temporary heap object, pass that,
				// and copy it back after the call (sound: the callee sees an equal value at a fresh address)
				cur := g.loadAddr(ad, st)
				cur.G = pt.Elem()
				id := g.newObj(st)
				tmp := Val{T: fmt.Sprintf("(pobj %s)", id), S: sPtr, G: a.Type()}
				g.storePtr(tmp, pt.Elem(), nil, cur, st)
				bind[paramNames[i]] = tmp
				copyBack = append(copyBack, copyBackItem{ad, tmp, pt.Elem()})
			}
			continue
		}
		bind[paramNames[i]] = g.val(a, st)
	}
	pre := st.clone()
	env := g.specEnv(st, pre)
	env.vars = bind
	env.calleePkg = g.W.pkgOf(spec.Pkg)
	env.calleeFn = callee
	var preAll []string
	// a callee whose contract is written for the other arithmetic mode (bit vectors vs mathematical integers):
	// its clauses cannot be read in this function's mode. Only its frame is used; nothing is assumed about the
	// results and its preconditions are not checked here (noted as an assumption).
	crossMode := spec.Mode != "any" && (spec.Mode == "bv") != g.bv // "mode any": clauses over lengths only, readable in both modes
	if crossMode {
		g.note(fmt.Sprintf("call of %s from a function in the other arithmetic mode: only its frame is used (pre/postconditions not related)", spec.Name))
	}
	for _, cl := range spec.Requires {
		if crossMode && !modeNeutral(cl.E) {
			continue
		}
		pt := env.evalBool(cl.E)
		preAll = append(preAll, pt)
		g.oblige("call."+spec.Name+"."+cl.Label, "A", fmt.Sprintf("precondition of %s: %s", spec.Name, cl.Src), st.reach, pt, false)
	}
	// the callee's postconditions are only available where its preconditions hold
	preOK := g.defineRaw("pre", "Bool", sAnd(preAll...))
	// havoc assigns
	if !spec.HasAssigns {
		// a `frame nothing` call rule of the caller (an ASSUMPTION noted in the evidence) also covers callees
		// that have a contract without an assigns clause
		if !spec.Pure && !g.frameNothing {
			g.havocForCallG(c, st, true)
		}
	} else {
		g.havocAssigns(spec, env, st, callee, c)
	}
	// results
	var res []Val
	for i := 0; i < sig.Results().Len(); i++ {
		res = append(res, g.freshVal("r_"+mangle(lastSeg(spec.Name)), sig.Results().At(i).Type(), st, st.reach))
	}
	if specMentionsNow(spec) {
		n := g.fresh("now")
		g.declare(n, "Int")
		if v, ok := st.ghosts["$now"]; ok {
			g.assume("true", fmt.Sprintf("(>= %s %s)", n, v.T))
		}
		st.ghosts["$now"] = Val{T: n, S: sInt}
	}
	post := g.specEnv(st, pre)
	post.vars = bind
	post.results = res
	post.atReturn = true
	post.calleePkg = env.calleePkg
	post.calleeFn = callee
	if callee != nil {
		post.resultNames = resultNames(callee.Signature)
	}
	for _, cl := range spec.Ensures {
		if crossMode {
			break
		}
		if g.W.isRefuted(spec, cl.Label) {
			continue // refuted clauses (known findings) are never assumed
		}
		if mentionsGhost(cl.E, spec) {
			continue // clause over the callee's own ghost monitors: internal to the callee
		}
		g.assume(st.reach, sImp(preOK, post.evalBool(cl.E)))
	}
	for _, cl := range spec.TrustedEnsures {
		if crossMode {
			break
		}
		g.assume(st.reach, sImp(preOK, post.evalBool(cl.E)))
		g.note(fmt.Sprintf("TRUSTED postcondition of %s assumed at call sites (not checked against its body): %s", spec.Name, cl.Src))
	}
	for _, cb := range copyBack {
		v := g.loadPtr(cb.tmp, cb.typ, nil, st)
		v.T = g.define("cb", v.S, v.T)
		g.storeAddr(cb.ad, v, st)
	}
	return res
}

type copyBackItem struct {
	ad  *Addr
	tmp Val
	typ types.Type
}

func resultNames(sig *types.Signature) []string {
	var ns []string
	for i := 0; i < sig.Results().Len(); i++ {
		ns = append(ns, sig.Results().At(i).Name())
	}
	return ns
}

func (g *Gen) havocAssigns(spec *FuncSpec, env *SpecEnv, st *State, callee *ssa.Function, c *ssa.CallCommon) {
	allocBumped := false
	bump := func() {
		if allocBumped {
			return
		}
		allocBumped = true
		a := g.fresh("alloc")
		g.declare(a, "Int")
		g.assume("true", fmt.Sprintf("(<= %s %s)", st.alloc, a))
		st.alloc = a
	}
	bump()
	for _, a := range spec.Assigns {
		switch {
		case a.All:
			g.havocForCallG(c, st, true)
			return
		case a.Elems:
			g.havocElems(st)
		case a.Map != "":
			var name string
			if callee != nil {
				name = g.resolveMapNameIn(a.Map, callee)
			} else {
				name = g.resolveMapName(a.Map)
			}
			g.havocHeap(st, map[string]bool{name: true})
		default:
			for _, l := range env.assignLocs(a.Expr) {
				name, at := l[0], l[1]
				srt, ok := g.heapSorts[name]
				if !ok {
					continue
				}
				cur := st.heap[name]
				if at == "" {
					g.havocHeap(st, map[string]bool{name: true})
					continue
				}
				n := g.fresh("H_" + name)
				g.declare(n, srt)
				// only location `at` changes
				var idxSort string
				if strings.HasPrefix(srt, "(Array Ptr ") {
					idxSort = "Ptr"
				} else {
					idxSort = "Int"
				}
				g.assume("true", fmt.Sprintf("(forall ((q %s)) (! (=> (not (= q %s)) (= (select %s q) (select %s q))) :pattern ((select %s q))))", idxSort, at, n, cur, n))
				st.heap[name] = n
			}
		}
	}
	// locals passed by address are havoc'd
	for _, a := range c.Args {
		if ad, ok := g.addrs[a]; ok && (ad.rk == rLocal) {
			g.havocAddr(ad, st)
		}
	}
}

// ---------------------------------------------------------------- builtins

func (g *Gen) execBuiltin(x *ssa.Call, b *ssa.Builtin, c *ssa.CallCommon, st *State) {
	switch b.Name() {
	case "len", "cap":
		a := g.val(c.Args[0], st)
		var t string
		switch a.S.K {
		case KSlice:
			t = fmt.Sprintf("(sl.%s %s)", b.Name(), a.T)
		case KStr:
			t = fmt.Sprintf("(gstr.len %s)", a.T)
		case KRef:
			if mt, ok := c.Args[0].Type().Underlying().(*types.Map); ok {
				dn, _ := g.mapNames(mt)
				ds, _ := g.mapSorts(mt)
				hd := g.heapGet(st, dn, ds)
				t = g.defineRaw("mlen", "Int", sIte(sEq(a.T, "0"), "0", mapLenTerm(g.sortOf(mt.Key()), hd, a.T)))
				g.assume("true", fmt.Sprintf("(>= %s 0)", t))
				// len == 0 ⇔ empty domain
				ks := g.sortOf(mt.Key())
				g.assume("true", fmt.Sprintf("(=> (= %s 0) (forall ((kk %s)) (not (select (select %s %s) kk))))", t, ks.SMT(), hd, a.T))
				g.assume("true", fmt.Sprintf("(forall ((kk %s)) (! (=> (and (not (= %s 0)) (select (select %s %s) kk)) (> %s 0)) :pattern ((select (select %s %s) kk))))", ks.SMT(), a.T, hd, a.T, t, hd, a.T))
				if g.bv {
					g.errorf("len(map) in bv mode unsupported")
				}
			} else {
				g.note("len of channel: unconstrained")
				t = g.freshVal("chlen", types.Typ[types.Int], nil, "true").T
			}
		case KArray:
			at := c.Args[0].Type().Underlying().(*types.Array)
			t = g.idxLit(at.Len())
		case KPtr:
			if pt, ok := c.Args[0].Type().Underlying().(*types.Pointer); ok {
				if at, ok := pt.Elem().Underlying().(*types.Array); ok {
					t = g.idxLit(at.Len())
				}
			}
		}
		if t == "" {
			g.errorf("len/cap of %s", c.Args[0].Type())
			t = g.idxLit(0)
		}
		g.setVal(x, Val{T: t, S: g.idxSort(), G: types.Typ[types.Int]})
	case "append":
		g.execAppend(x, c, st)
	case "copy":
		g.execCopy(x, c, st)
	case "delete":
		mt := c.Args[0].Type().Underlying().(*types.Map)
		m := g.val(c.Args[0], st)
		k := g.val(c.Args[1], st)
		dn, _ := g.mapNames(mt)
		ds, _ := g.mapSorts(mt)
		hd := g.heapGet(st, dn, ds)
		nd := g.defineRaw("h", ds, sIte(sEq(m.T, "0"), hd, fmt.Sprintf("(store %[1]s %[2]s (store (select %[1]s %[2]s) %[3]s false))", hd, m.T, k.T)))
		st.heap[dn] = nd
		was := fmt.Sprintf("(select (select %s %s) %s)", hd, m.T, k.T)
		mks := g.sortOf(mt.Key())
		g.assume(st.reach, fmt.Sprintf("(= %s (ite %s (- %s 1) %s))", mapLenTerm(mks, nd, m.T), was, mapLenTerm(mks, hd, m.T), mapLenTerm(mks, hd, m.T)))
	case "min", "max":
		a, bb := g.val(c.Args[0], st), g.val(c.Args[1], st)
		lt := g.binop(tokenLSS, a, bb, c.Args[0].Type(), types.Typ[types.Bool], nil)
		if b.Name() == "min" {
			g.setVal(x, Val{T: sIte(lt.T, a.T, bb.T), S: a.S, G: x.Type()})
		} else {
			g.setVal(x, Val{T: sIte(lt.T, bb.T, a.T), S: a.S, G: x.Type()})
		}
	case "print", "println", "ssa:wrapnilchk", "ssa:deferstack":
		if x.Type() != nil {
			if b.Name() == "ssa:wrapnilchk" {
				g.vals[x] = g.val(c.Args[0], st)
			} else if _, isTuple := x.Type().(*types.Tuple); !isTuple {
				g.vals[x] = g.zero(x.Type())
			}
		}
	case "recover":
		g.vals[x] = Val{T: "(mk-iface 0 0)", S: sIface, G: x.Type()}
	case "close":
		g.note("channel close in " + g.key + ": not modelled")
	case "clear":
		g.errorf("builtin clear unsupported")
	default:
		g.errorf("builtin %s unsupported", b.Name())
		if x.Type() != nil {
			g.vals[x] = g.freshVal("bi", x.Type(), st, st.reach)
		}
	}
}

func (g *Gen) execAppend(x *ssa.Call, c *ssa.CallCommon, st *State) {
	s := g.val(c.Args[0], st)
	t := g.val(c.Args[1], st)
	sl := c.Args[0].Type().Underlying().(*types.Slice)
	var n string // number of appended elements
	fromStr := t.S.K == KStr
	if fromStr {
		n = fmt.Sprintf("(gstr.len %s)", t.T)
	} else {
		n = fmt.Sprintf("(sl.len %s)", t.T)
	}
	slen, scap, soff, sarr := fmt.Sprintf("(sl.len %s)", s.T), fmt.Sprintf("(sl.cap %s)", s.T), fmt.Sprintf("(sl.off %s)", s.T), fmt.Sprintf("(sl.arr %s)", s.T)
	newLen := g.defineRaw("nl", g.idxSort().SMT(), g.idxAdd(slen, n))
	fits := g.defineRaw("fits", "Bool", g.idxLe(newLen, scap))
	// result slice
	id := g.newObj(st)
	ncap := g.fresh("ncap")
	g.declare(ncap, g.idxSort().SMT())
	g.assume("true", g.idxLe(newLen, ncap))
	if g.bv {
		g.assume("true", fmt.Sprintf("(bvslt %s #x0000100000000000)", ncap))
	} else {
		g.assume("true", fmt.Sprintf("(<= %s 4611686018427387904)", ncap))
	}
	// append of zero elements to a nil slice stays nil; to keep the model simple: if n == 0 result is s itself
	zeroN := sEq(n, g.idxLit(0))
	res := sIte(zeroN, s.T, sIte(fits,
		fmt.Sprintf("(mk-slice %s %s %s %s)", sarr, soff, newLen, scap),
		fmt.Sprintf("(mk-slice %s %s %s %s)", id, g.idxLit(0), newLen, ncap)))
	rn := g.fresh("app")
	g.declare(rn, "Slice")
	g.assume("true", sEq(rn, res))
	rv := Val{T: rn, S: sSlice, G: x.Type()}
	g.vals[x] = rv
	// element effects
	et := sl.Elem()
	if stt, ok := et.Underlying().(*types.Struct); ok && !isTimeType(et) && !isOpaqueStruct(et) {
		for i := 0; i < stt.NumFields(); i++ {
			name, sort, _ := g.fieldMapName(et, i)
			h := g.heapGet(st, name, sort)
			nh := g.fresh("H_" + name)
			g.declare(nh, sort)
			// new[pelem(rarr, roff+k)] = k < slen ? old[pelem(sarr,soff+k)] : old[pelem(tarr,toff+k-slen)]; others unchanged
			g.assume("true", fmt.Sprintf("(forall ((q Ptr)) (! (= (select %[1]s q) (ite (and (is-pelem q) (= (pelem.arr q) (sl.arr %[2]s)) %[3]s %[4]s) (ite %[5]s (select %[6]s (pelem (sl.arr %[7]s) %[8]s)) (select %[6]s (pelem (sl.arr %[9]s) %[10]s))) (select %[6]s q))) :pattern ((select %[1]s q))))",
				nh, rv.T,
				g.idxLe(fmt.Sprintf("(sl.off %s)", rv.T), "(pelem.idx q)"),
				g.idxLt("(pelem.idx q)", g.idxAdd(fmt.Sprintf("(sl.off %s)", rv.T), newLen)),
				g.idxLt(g.idxSub("(pelem.idx q)", fmt.Sprintf("(sl.off %s)", rv.T)), slen),
				h, s.T, g.idxAdd(soff, g.idxSub("(pelem.idx q)", fmt.Sprintf("(sl.off %s)", rv.T))),
				t.T, g.idxAdd(fmt.Sprintf("(sl.off %s)", t.T), g.idxSub(g.idxSub("(pelem.idx q)", fmt.Sprintf("(sl.off %s)", rv.T)), slen))))
			st.heap[name] = nh
		}
		return
	}
	es := g.sortOf(et)
	if es.K == KUnit {
		return
	}
	name, sort := g.elemMapName(es)
	h := g.heapGet(st, name, sort)
	nh := g.fresh("H_" + name)
	g.declare(nh, sort)
	st.heap[name] = nh
	rarr, roff := fmt.Sprintf("(sl.arr %s)", rv.T), fmt.Sprintf("(sl.off %s)", rv.T)
	// other arrays unchanged
	g.assume("true", fmt.Sprintf("(forall ((a Int)) (! (=> (not (= a %s)) (= (select %s a) (select %s a))) :pattern ((select %s a))))", rarr, nh, h, nh))
	var src string
	if fromStr {
		src = fmt.Sprintf("(gstr.at %s %s)", t.T, g.idxSub(g.idxSub("k", roff), slen))
	} else {
		src = fmt.Sprintf("(select (select %s (sl.arr %s)) %s)", h, t.T, g.idxAdd(fmt.Sprintf("(sl.off %s)", t.T), g.idxSub(g.idxSub("k", roff), slen)))
	}
	g.assume("true", fmt.Sprintf("(forall ((k %[1]s)) (! (= (select (select %[2]s %[3]s) k) (ite (and %[4]s %[5]s) (ite %[6]s (select (select %[7]s %[8]s) %[9]s) %[10]s) (select (select %[7]s %[3]s) k))) :pattern ((select (select %[2]s %[3]s) k))))",
		g.idxSort().SMT(), nh, rarr,
		g.idxLe(roff, "k"), g.idxLt("k", g.idxAdd(roff, newLen)),
		g.idxLt(g.idxSub("k", roff), slen),
		h, sarr, g.idxAdd(soff, g.idxSub("k", roff)),
		src))
}

func (g *Gen) execCopy(x *ssa.Call, c *ssa.CallCommon, st *State) {
	d := g.val(c.Args[0], st)
	s := g.val(c.Args[1], st)
	sl := c.Args[0].Type().Underlying().(*types.Slice)
	var slen string
	fromStr := s.S.K == KStr
	if fromStr {
		slen = fmt.Sprintf("(gstr.len %s)", s.T)
	} else {
		slen = fmt.Sprintf("(sl.len %s)", s.T)
	}
	dlen := fmt.Sprintf("(sl.len %s)", d.T)
	n := g.defineRaw("cpn", g.idxSort().SMT(), sIte(g.idxLt(slen, dlen), slen, dlen))
	g.setVal(x, Val{T: n, S: g.idxSort(), G: types.Typ[types.Int]})
	es := g.sortOf(sl.Elem())
	if stt, ok := sl.Elem().Underlying().(*types.Struct); ok && !isTimeType(sl.Elem()) && !isOpaqueStruct(sl.Elem()) {
		darr, doff := fmt.Sprintf("(sl.arr %s)", d.T), fmt.Sprintf("(sl.off %s)", d.T)
		for i := 0; i < stt.NumFields(); i++ {
			fname, fsort, _ := g.fieldMapName(sl.Elem(), i)
			h := g.heapGet(st, fname, fsort)
			nh := g.fresh("H_" + fname)
			g.declare(nh, fsort)
			g.assume("true", fmt.Sprintf("(forall ((q Ptr)) (! (= (select %[1]s q) (ite (and (is-pelem q) (= (pelem.arr q) %[2]s) %[3]s %[4]s) (select %[5]s (pelem (sl.arr %[6]s) %[7]s)) (select %[5]s q))) :pattern ((select %[1]s q))))",
				nh, darr, g.idxLe(doff, "(pelem.idx q)"), g.idxLt("(pelem.idx q)", g.idxAdd(doff, n)), h, s.T,
				g.idxAdd(fmt.Sprintf("(sl.off %s)", s.T), g.idxSub("(pelem.idx q)", doff))))
			st.heap[fname] = nh
		}
		return
	}
	if es.K == KUnit {
		return
	}
	name, sort := g.elemMapName(es)
	h := g.heapGet(st, name, sort)
	nh := g.fresh("H_" + name)
	g.declare(nh, sort)
	st.heap[name] = nh
	darr, doff := fmt.Sprintf("(sl.arr %s)", d.T), fmt.Sprintf("(sl.off %s)", d.T)
	g.assume("true", fmt.Sprintf("(forall ((a Int)) (! (=> (not (= a %s)) (= (select %s a) (select %s a))) :pattern ((select %s a))))", darr, nh, h, nh))
	var src string
	if fromStr {
		src = fmt.Sprintf("(gstr.at %s %s)", s.T, g.idxSub("k", doff))
	} else {
		src = fmt.Sprintf("(select (select %s (sl.arr %s)) %s)", h, s.T, g.idxAdd(fmt.Sprintf("(sl.off %s)", s.T), g.idxSub("k", doff)))
	}
	g.assume("true", fmt.Sprintf("(forall ((k %[1]s)) (! (= (select (select %[2]s %[3]s) k) (ite (and %[4]s %[5]s) %[6]s (select (select %[7]s %[3]s) k))) :pattern ((select (select %[2]s %[3]s) k))))",
		g.idxSort().SMT(), nh, darr, g.idxLe(doff, "k"), g.idxLt("k", g.idxAdd(doff, n)), src, h))
}

func specMentionsNow(spec *FuncSpec) bool {
	for _, c := range spec.Ensures {
		if strings.Contains(c.Src, "now") {
			return true
		}
	}
	return false
}

// modeNeutral: a clause that only compares lengths, capacities, nil-ness and integer literals reads the same
// in bit-vector and in mathematical mode (no arithmetic that could wrap, no spec function over bytes).
func modeNeutral(e Expr) bool {
	switch n := e.(type) {
	case EIdent, EInt, EBool, ENil:
		return true
	case EUnary:
		return n.Op == "!" && modeNeutral(n.X)
	case EBin:
		switch n.Op {
		case "&&", "||", "==>", "<==>", "==", "!=", "<", "<=", ">", ">=":
			return modeNeutral(n.L) && modeNeutral(n.R)
		}
		return false
	case ECall:
		if (n.Fn == "len" || n.Fn == "cap") && len(n.Args) == 1 {
			_, isId := n.Args[0].(EIdent)
			return isId
		}
		return false
	}
	return false
}

func mentionsGhost(e Expr, spec *FuncSpec) bool {
	if len(spec.Ghosts) == 0 {
		return false
	}
	names := map[string]bool{}
	for _, gh := range spec.Ghosts {
		names[gh.Name] = true
	}
	found := false
	var walk func(e Expr)
	walk = func(e Expr) {
		switch n := e.(type) {
		case EIdent:
			if names[n.Name] {
				found = true
			}
		case EUnary:
			walk(n.X)
		case EBin:
			walk(n.L)
			walk(n.R)
		case ESel:
			walk(n.X)
		case EIndex:
			walk(n.X)
			walk(n.I)
		case ESlice:
			walk(n.X)
			if n.Lo != nil {
				walk(n.Lo)
			}
			if n.Hi != nil {
				walk(n.Hi)
			}
		case ECall:
			for _, a := range n.Args {
				walk(a)
			}
		case EQuant:
			walk(n.Body)
		case EOld:
			walk(n.X)
		case ECond:
			walk(n.C)
			walk(n.A)
			walk(n.B)
		}
	}
	walk(e)
	return found
}

// havocElems: every element map (E_*) and cell map (C_*) gets a fresh version; the ones not declared yet
// are remembered through the pending key "$elems" (see heapGet).
func (g *Gen) havocElems(st *State) {
	for _, k := range sortedKeys(g.heapSorts) {
		if strings.HasPrefix(k, "E_") || strings.HasPrefix(k, "C_") {
			n := g.fresh("H_" + k)
			g.declare(n, g.heapSorts[k])
			st.heap[k] = n
		}
	}
	g.ctr++
	if st.pend == nil {
		st.pend = map[string]int{}
	}
	st.pend["$elems"] = g.ctr
}
