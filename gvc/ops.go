package main

import (
	"fmt"
	"go/token"
	"go/types"
	"math/big"
)

func isUnsigned(t types.Type) bool {
	ii, ok := basicIntInfo(t)
	return ok && !ii.signed
}

func (g *Gen) declStrLt() {
	if g.declared["gstr.lt"] {
		return
	}
	g.declareFun("gstr.lt", "(Str Str) Bool")
	g.assumes = append(g.assumes,
		"(forall ((a Str)) (! (not (gstr.lt a a)) :pattern ((gstr.lt a a))))",
		"(forall ((a Str) (b Str)) (! (or (gstr.lt a b) (= a b) (gstr.lt b a)) :pattern ((gstr.lt a b))))",
		"(forall ((a Str) (b Str)) (! (not (and (gstr.lt a b) (gstr.lt b a))) :pattern ((gstr.lt a b))))",
		"(forall ((a Str) (b Str) (c Str)) (! (=> (and (gstr.lt a b) (gstr.lt b c)) (gstr.lt a c)) :pattern ((gstr.lt a b) (gstr.lt b c))))")
}

// binop: Go binary operator on two values of operand type ot, result type rt.
func (g *Gen) binop(op token.Token, a, b Val, ot, rt types.Type, st *State) Val {
	a, b = g.unify(a, b)
	r := Val{G: rt}
	switch a.S.K {
	case KBool:
		r.S = sBool
		switch op {
		case token.EQL:
			r.T = sEq(a.T, b.T)
		case token.NEQ:
			r.T = sNot(sEq(a.T, b.T))
		case token.AND, token.LAND:
			r.T = sAnd(a.T, b.T)
		case token.OR, token.LOR:
			r.T = sOr(a.T, b.T)
		case token.XOR:
			r.T = fmt.Sprintf("(xor %s %s)", a.T, b.T)
		default:
			g.errorf("bool op %s", op)
			r.T = "false"
		}
		return r
	case KStr:
		switch op {
		case token.EQL:
			return Val{T: sEq(a.T, b.T), S: sBool, G: rt}
		case token.NEQ:
			return Val{T: sNot(sEq(a.T, b.T)), S: sBool, G: rt}
		case token.LSS:
			g.declStrLt()
			return Val{T: fmt.Sprintf("(gstr.lt %s %s)", a.T, b.T), S: sBool, G: rt}
		case token.GTR:
			g.declStrLt()
			return Val{T: fmt.Sprintf("(gstr.lt %s %s)", b.T, a.T), S: sBool, G: rt}
		case token.LEQ:
			g.declStrLt()
			return Val{T: sNot(fmt.Sprintf("(gstr.lt %s %s)", b.T, a.T)), S: sBool, G: rt}
		case token.GEQ:
			g.declStrLt()
			return Val{T: sNot(fmt.Sprintf("(gstr.lt %s %s)", a.T, b.T)), S: sBool, G: rt}
		case token.ADD:
			g.declareFun("gstr.cat", "(Str Str) Str")
			t := g.define("cat", sStr, fmt.Sprintf("(gstr.cat %s %s)", a.T, b.T))
			g.assume("true", fmt.Sprintf("(= (gstr.len %s) %s)", t, g.idxAdd(fmt.Sprintf("(gstr.len %s)", a.T), fmt.Sprintf("(gstr.len %s)", b.T))))
			g.assume("true", sImp(sEq(fmt.Sprintf("(gstr.len %s)", b.T), g.idxLit(0)), sEq(t, a.T)))
			g.assume("true", sImp(sEq(fmt.Sprintf("(gstr.len %s)", a.T), g.idxLit(0)), sEq(t, b.T)))
			return Val{T: t, S: sStr, G: rt}
		}
		g.errorf("string op %s", op)
		return Val{T: "false", S: sBool, G: rt}
	case KF64, KF32:
		switch op {
		case token.EQL:
			return Val{T: fmt.Sprintf("(fp.eq %s %s)", a.T, b.T), S: sBool, G: rt}
		case token.NEQ:
			return Val{T: fmt.Sprintf("(not (fp.eq %s %s))", a.T, b.T), S: sBool, G: rt}
		case token.LSS:
			return Val{T: fmt.Sprintf("(fp.lt %s %s)", a.T, b.T), S: sBool, G: rt}
		case token.LEQ:
			return Val{T: fmt.Sprintf("(fp.leq %s %s)", a.T, b.T), S: sBool, G: rt}
		case token.GTR:
			return Val{T: fmt.Sprintf("(fp.gt %s %s)", a.T, b.T), S: sBool, G: rt}
		case token.GEQ:
			return Val{T: fmt.Sprintf("(fp.geq %s %s)", a.T, b.T), S: sBool, G: rt}
		case token.ADD:
			return Val{T: fmt.Sprintf("(fp.add RNE %s %s)", a.T, b.T), S: a.S, G: rt}
		case token.SUB:
			return Val{T: fmt.Sprintf("(fp.sub RNE %s %s)", a.T, b.T), S: a.S, G: rt}
		case token.MUL:
			return Val{T: fmt.Sprintf("(fp.mul RNE %s %s)", a.T, b.T), S: a.S, G: rt}
		case token.QUO:
			return Val{T: fmt.Sprintf("(fp.div RNE %s %s)", a.T, b.T), S: a.S, G: rt}
		}
		g.errorf("float op %s", op)
		return Val{T: "false", S: sBool, G: rt}
	case KPtr, KSlice, KRef, KIface, KStruct, KUnit, KArray:
		switch op {
		case token.EQL:
			if a.S.K == KSlice && (a.T == g.nilSlice() || b.T == g.nilSlice()) {
				// Go only allows comparison with nil; specs may also compare slice headers
				return Val{T: g.sliceIsNil(a, b), S: sBool, G: rt}
			}
			return Val{T: sEq(a.T, b.T), S: sBool, G: rt}
		case token.NEQ:
			if a.S.K == KSlice && (a.T == g.nilSlice() || b.T == g.nilSlice()) {
				return Val{T: sNot(g.sliceIsNil(a, b)), S: sBool, G: rt}
			}
			return Val{T: sNot(sEq(a.T, b.T)), S: sBool, G: rt}
		}
		g.errorf("op %s on %s", op, a.S.SMT())
		return Val{T: "false", S: sBool, G: rt}
	case KInt:
		return g.intBinop(op, a, b, ot, rt, st)
	case KBV:
		return g.bvBinop(op, a, b, ot, rt, st)
	}
	g.errorf("binop on sort %v", a.S.K)
	return Val{T: "false", S: sBool, G: rt}
}

func (g *Gen) sliceIsNil(a, b Val) string {
	x := a
	if a.T == g.nilSlice() {
		x = b
	}
	return fmt.Sprintf("(= (sl.arr %s) 0)", x.T)
}

// unify resolves untyped constants against the other operand.
func (g *Gen) unify(a, b Val) (Val, Val) {
	if a.untyped() && b.untyped() {
		a = g.coerce(a, sInt, types.Typ[types.Int])
		if g.bv {
			a = g.coerce(Val{C: a.C}, bvSort(64), types.Typ[types.Int])
		}
	}
	if a.untyped() {
		a = g.coerce(a, b.S, b.G)
	}
	if b.untyped() {
		b = g.coerce(b, a.S, a.G)
	}
	// nil literal handling
	if a.T == "$nil" && b.T == "$nil" {
		a.T, b.T = "pnull", "pnull"
	} else if a.T == "$nil" {
		a = g.nilOf(b)
	} else if b.T == "$nil" {
		b = g.nilOf(a)
	}
	return a, b
}

func (g *Gen) nilOf(v Val) Val {
	switch v.S.K {
	case KPtr:
		return Val{T: "pnull", S: sPtr, G: v.G}
	case KSlice:
		return Val{T: g.nilSlice(), S: sSlice, G: v.G}
	case KIface:
		return Val{T: "(mk-iface 0 0)", S: sIface, G: v.G}
	case KRef:
		return Val{T: "0", S: sRef, G: v.G}
	}
	return v
}

func (g *Gen) coerce(v Val, s *Sort, t types.Type) Val {
	if !v.untyped() {
		return v
	}
	switch s.K {
	case KInt, KRef:
		return Val{T: intLit(v.C), S: s, G: t}
	case KBV:
		return Val{T: bvLit(v.C, s.W), S: s, G: t}
	case KF64, KF32:
		f, _ := new(big.Float).SetInt(v.C).Float64()
		return Val{T: g.floatLit(f, s), S: s, G: t}
	}
	return Val{T: intLit(v.C), S: sInt, G: t}
}

func (g *Gen) intBinop(op token.Token, a, b Val, ot, rt types.Type, st *State) Val {
	r := Val{S: sInt, G: rt}
	cmp := func(o string) Val { return Val{T: fmt.Sprintf("(%s %s %s)", o, a.T, b.T), S: sBool, G: rt} }
	switch op {
	case token.EQL:
		return Val{T: sEq(a.T, b.T), S: sBool, G: rt}
	case token.NEQ:
		return Val{T: sNot(sEq(a.T, b.T)), S: sBool, G: rt}
	case token.LSS:
		return cmp("<")
	case token.LEQ:
		return cmp("<=")
	case token.GTR:
		return cmp(">")
	case token.GEQ:
		return cmp(">=")
	case token.ADD:
		r.T = fmt.Sprintf("(+ %s %s)", a.T, b.T)
	case token.SUB:
		r.T = fmt.Sprintf("(- %s %s)", a.T, b.T)
	case token.MUL:
		r.T = fmt.Sprintf("(* %s %s)", a.T, b.T)
	case token.QUO:
		if st != nil {
			g.oblige("divzero", "C", "division by zero", st.reach, sNot(sEq(b.T, "0")), true)
		}
		if isUnsigned(ot) {
			r.T = fmt.Sprintf("(div %s %s)", a.T, b.T)
		} else {
			r.T = fmt.Sprintf("(ite (>= %[1]s 0) (div %[1]s %[2]s) (- (div (- %[1]s) %[2]s)))", a.T, b.T)
		}
	case token.REM:
		if st != nil {
			g.oblige("divzero", "C", "division by zero", st.reach, sNot(sEq(b.T, "0")), true)
		}
		if _, isConst := smtConst(b.T); !isConst && g.abstractMod {
			// symbolic divisor: non-linear for the solvers; abstracted by an uninterpreted remainder with its
			// range facts (sound over-approximation; the same term is produced in code and in specifications)
			fn := "int.srem"
			if isUnsigned(ot) {
				fn = "int.urem"
			}
			g.declareFun(fn, "(Int Int) Int")
			r.T = fmt.Sprintf("(%s %s %s)", fn, a.T, b.T)
			if st == nil {
				return r // specification context (possibly under a quantifier): the bare term
			}
			if isUnsigned(ot) {
				g.assume("true", fmt.Sprintf("(=> (> %[2]s 0) (and (<= 0 %[1]s) (< %[1]s %[2]s) (<= %[1]s %[3]s)))", r.T, b.T, a.T))
			} else {
				g.assume("true", fmt.Sprintf("(=> (> %[2]s 0) (and (< (- %[2]s) %[1]s) (< %[1]s %[2]s) (=> (>= %[3]s 0) (and (<= 0 %[1]s) (<= %[1]s %[3]s))) (=> (<= %[3]s 0) (and (<= %[1]s 0) (<= %[3]s %[1]s)))))", r.T, b.T, a.T))
			}
			return r
		}
		if isUnsigned(ot) {
			r.T = fmt.Sprintf("(mod %s %s)", a.T, b.T)
		} else {
			r.T = fmt.Sprintf("(ite (>= %[1]s 0) (mod %[1]s %[2]s) (- (mod (- %[1]s) %[2]s)))", a.T, b.T)
		}
		return r
	case token.SHL:
		if c, ok := smtConst(b.T); ok && c.IsInt64() && c.Int64() < 64 {
			r.T = fmt.Sprintf("(* %s %s)", a.T, pow2(int(c.Int64())).String())
		} else {
			g.declareFun("int.shl", "(Int Int) Int")
			r.T = fmt.Sprintf("(int.shl %s %s)", a.T, b.T)
			g.note("non-constant shift in int mode treated as uninterpreted in " + g.key)
			return r
		}
	case token.SHR:
		if c, ok := smtConst(b.T); ok && c.IsInt64() && c.Int64() < 64 {
			r.T = fmt.Sprintf("(div %s %s)", a.T, pow2(int(c.Int64())).String())
			return r
		}
		g.declareFun("int.shr", "(Int Int) Int")
		r.T = fmt.Sprintf("(int.shr %s %s)", a.T, b.T)
		g.note("non-constant shift in int mode treated as uninterpreted in " + g.key)
		return r
	case token.AND:
		// x & (2^k-1)  ==  x mod 2^k
		for _, pr := range [][2]Val{{a, b}, {b, a}} {
			if c, ok := smtConst(pr[1].T); ok && c.Sign() >= 0 {
				c1 := new(big.Int).Add(c, big.NewInt(1))
				if c1.BitLen() > 0 && new(big.Int).And(c1, c).Sign() == 0 {
					r.T = fmt.Sprintf("(mod %s %s)", pr[0].T, c1.String())
					return r
				}
			}
		}
		g.declareFun("int.and", "(Int Int) Int")
		r.T = fmt.Sprintf("(int.and %s %s)", a.T, b.T)
		g.assume("true", fmt.Sprintf("(=> (and (>= %[1]s 0) (>= %[2]s 0)) (and (>= (int.and %[1]s %[2]s) 0) (<= (int.and %[1]s %[2]s) %[1]s) (<= (int.and %[1]s %[2]s) %[2]s)))", a.T, b.T))
		return r
	case token.OR:
		g.declareFun("int.or", "(Int Int) Int")
		r.T = fmt.Sprintf("(int.or %s %s)", a.T, b.T)
		g.assume("true", fmt.Sprintf("(=> (and (>= %[1]s 0) (>= %[2]s 0)) (and (>= (int.or %[1]s %[2]s) %[1]s) (>= (int.or %[1]s %[2]s) %[2]s) (<= (int.or %[1]s %[2]s) (+ %[1]s %[2]s))))", a.T, b.T))
		g.assume("true", fmt.Sprintf("(=> (= %[2]s 0) (= (int.or %[1]s %[2]s) %[1]s))", a.T, b.T))
		return r
	case token.XOR:
		g.declareFun("int.xor", "(Int Int) Int")
		r.T = fmt.Sprintf("(int.xor %s %s)", a.T, b.T)
		return r
	case token.AND_NOT:
		g.declareFun("int.andnot", "(Int Int) Int")
		r.T = fmt.Sprintf("(int.andnot %s %s)", a.T, b.T)
		return r
	default:
		g.errorf("int op %s", op)
		r.T = "0"
		return r
	}
	if st != nil {
		r.T = g.define("ar", sInt, r.T)
		g.overflowCheck(r, rt, st, op.String())
	}
	return r
}

func smtConst(t string) (*big.Int, bool) {
	if len(t) == 0 {
		return nil, false
	}
	if t[0] >= '0' && t[0] <= '9' {
		n, ok := new(big.Int).SetString(t, 10)
		return n, ok
	}
	var w int
	var s string
	if n, _ := fmt.Sscanf(t, "(_ bv%s %d)", &s, &w); n == 2 {
		v, ok := new(big.Int).SetString(s, 10)
		return v, ok
	}
	return nil, false
}

func (g *Gen) bvBinop(op token.Token, a, b Val, ot, rt types.Type, st *State) Val {
	r := Val{S: a.S, G: rt}
	uns := isUnsigned(ot)
	cmp := func(s, u string) Val {
		o := s
		if uns {
			o = u
		}
		return Val{T: fmt.Sprintf("(%s %s %s)", o, a.T, b.T), S: sBool, G: rt}
	}
	// shifts: operand widths may differ
	if op == token.SHL || op == token.SHR {
		if b.S.K == KBV && b.S.W != a.S.W {
			if b.S.W < a.S.W {
				b = Val{T: fmt.Sprintf("((_ zero_extend %d) %s)", a.S.W-b.S.W, b.T), S: a.S}
			} else {
				// saturate: if b >= width result is 0/sign; compare in wide sort
				big := fmt.Sprintf("(bvuge %s %s)", b.T, bvLit(bigN(int64(a.S.W)), b.S.W))
				nb := fmt.Sprintf("((_ extract %d 0) %s)", a.S.W-1, b.T)
				b = Val{T: sIte(big, bvLit(bigN(int64(a.S.W)), a.S.W), nb), S: a.S}
			}
		}
	}
	switch op {
	case token.EQL:
		return Val{T: sEq(a.T, b.T), S: sBool, G: rt}
	case token.NEQ:
		return Val{T: sNot(sEq(a.T, b.T)), S: sBool, G: rt}
	case token.LSS:
		return cmp("bvslt", "bvult")
	case token.LEQ:
		return cmp("bvsle", "bvule")
	case token.GTR:
		return cmp("bvsgt", "bvugt")
	case token.GEQ:
		return cmp("bvsge", "bvuge")
	case token.ADD:
		r.T = fmt.Sprintf("(bvadd %s %s)", a.T, b.T)
	case token.SUB:
		r.T = fmt.Sprintf("(bvsub %s %s)", a.T, b.T)
	case token.MUL:
		r.T = fmt.Sprintf("(bvmul %s %s)", a.T, b.T)
	case token.QUO:
		if st != nil {
			g.oblige("divzero", "C", "division by zero", st.reach, sNot(sEq(b.T, bvLit(bigN(0), a.S.W))), true)
		}
		if uns {
			r.T = fmt.Sprintf("(bvudiv %s %s)", a.T, b.T)
		} else {
			r.T = fmt.Sprintf("(bvsdiv %s %s)", a.T, b.T)
		}
	case token.REM:
		if st != nil {
			g.oblige("divzero", "C", "division by zero", st.reach, sNot(sEq(b.T, bvLit(bigN(0), a.S.W))), true)
		}
		if uns {
			r.T = fmt.Sprintf("(bvurem %s %s)", a.T, b.T)
		} else {
			r.T = fmt.Sprintf("(bvsrem %s %s)", a.T, b.T)
		}
	case token.AND:
		r.T = fmt.Sprintf("(bvand %s %s)", a.T, b.T)
	case token.OR:
		r.T = fmt.Sprintf("(bvor %s %s)", a.T, b.T)
	case token.XOR:
		r.T = fmt.Sprintf("(bvxor %s %s)", a.T, b.T)
	case token.AND_NOT:
		r.T = fmt.Sprintf("(bvand %s (bvnot %s))", a.T, b.T)
	case token.SHL:
		r.T = fmt.Sprintf("(bvshl %s %s)", a.T, b.T)
	case token.SHR:
		if uns {
			r.T = fmt.Sprintf("(bvlshr %s %s)", a.T, b.T)
		} else {
			r.T = fmt.Sprintf("(bvashr %s %s)", a.T, b.T)
		}
	default:
		g.errorf("bv op %s", op)
		r.T = a.T
	}
	return r
}

func bigN(n int64) *big.Int { return big.NewInt(n) }

// convert: Go conversion from type ft to tt.
func (g *Gen) convert(v Val, ft, tt types.Type, st *State) Val {
	fs, ts := g.sortOf(ft), g.sortOf(tt)
	r := Val{S: ts, G: tt}
	fi, fIsInt := basicIntInfo(ft)
	ti, tIsInt := basicIntInfo(tt)
	if isTimeType(ft) || isTimeType(tt) {
		r.T = v.T
		return r
	}
	switch {
	case fIsInt && tIsInt:
		if g.bv {
			switch {
			case ti.w == fi.w:
				r.T = v.T
			case ti.w < fi.w:
				r.T = fmt.Sprintf("((_ extract %d 0) %s)", ti.w-1, v.T)
			default:
				ext := "zero_extend"
				if fi.signed {
					ext = "sign_extend"
				}
				r.T = fmt.Sprintf("((_ %s %d) %s)", ext, ti.w-fi.w, v.T)
			}
			return r
		}
		// int mode: value preserved iff in range of target; otherwise wraps (obligation)
		inRange := fmt.Sprintf("(and (<= %s %s) (<= %s %s))", intLit(ti.min()), v.T, v.T, intLit(ti.max()))
		if fi.min().Cmp(ti.min()) >= 0 && fi.max().Cmp(ti.max()) <= 0 {
			r.T = v.T
			return r
		}
		// exact wrap semantics via mod
		m := pow2(ti.w).String()
		if ti.signed {
			h := pow2(ti.w - 1).String()
			r.T = fmt.Sprintf("(ite %s %s (- (mod (+ %s %s) %s) %s))", inRange, v.T, v.T, h, m, h)
		} else {
			r.T = fmt.Sprintf("(ite %s %s (mod %s %s))", inRange, v.T, v.T, m)
		}
		if st != nil && g.spec != nil && g.spec.NoOverflow {
			g.oblige("nooverflow", "C", fmt.Sprintf("conversion %s -> %s preserves the value", ft, tt), st.reach, inRange, true)
		}
		return r
	case fIsInt && (ts.K == KF64 || ts.K == KF32):
		eb, sb := 11, 53
		if ts.K == KF32 {
			eb, sb = 8, 24
		}
		if g.bv {
			if fi.signed {
				r.T = fmt.Sprintf("((_ to_fp %d %d) RNE %s)", eb, sb, v.T)
			} else {
				r.T = fmt.Sprintf("((_ to_fp_unsigned %d %d) RNE %s)", eb, sb, v.T)
			}
		} else {
			// int mode: bridge through a bit-vector of the operand's width. (z3 answers *unsat* on
			// goals that convert a symbolic Int through to_real/to_fp/fp.to_real -- measured -- so the
			// real-valued encoding must not be used.)
			conv := "to_fp"
			if !fi.signed {
				conv = "to_fp_unsigned"
			}
			r.T = fmt.Sprintf("((_ %s %d %d) RNE ((_ int2bv %d) %s))", conv, eb, sb, fi.w, v.T)
		}
		return r
	case (fs.K == KF64 || fs.K == KF32) && tIsInt:
		if g.bv {
			if ti.signed {
				r.T = fmt.Sprintf("((_ fp.to_sbv %d) RTZ %s)", ti.w, v.T)
			} else {
				r.T = fmt.Sprintf("((_ fp.to_ubv %d) RTZ %s)", ti.w, v.T)
			}
			return r
		}
		// int mode: truncation toward zero through a bit-vector (unspecified when out of range / NaN)
		var kb string
		if ti.signed {
			kb = g.define("f2i", bvSort(ti.w), fmt.Sprintf("((_ fp.to_sbv %d) RTZ %s)", ti.w, v.T))
			r.T = fmt.Sprintf("(ite (bvslt %s %s) (- (bv2nat %s) %s) (bv2nat %s))", kb, bvLit(big.NewInt(0), ti.w), kb, pow2(ti.w).String(), kb)
		} else {
			kb = g.define("f2i", bvSort(ti.w), fmt.Sprintf("((_ fp.to_ubv %d) RTZ %s)", ti.w, v.T))
			r.T = fmt.Sprintf("(bv2nat %s)", kb)
		}
		r.T = g.define("f2iv", sInt, r.T)
		return r
	case (fs.K == KF64 || fs.K == KF32) && (ts.K == KF64 || ts.K == KF32):
		if fs.K == ts.K {
			r.T = v.T
		} else if ts.K == KF64 {
			r.T = fmt.Sprintf("((_ to_fp 11 53) RNE %s)", v.T)
		} else {
			r.T = fmt.Sprintf("((_ to_fp 8 24) RNE %s)", v.T)
		}
		return r
	case fs.K == KStr && ts.K == KSlice:
		// []byte(s): fresh backing array with the string's bytes
		id := g.newObj(st)
		es := g.byteSort()
		name, sort := g.elemMapName(es)
		h := g.heapGet(st, name, sort)
		n := g.fresh("H_" + name)
		g.declare(n, sort)
		st.heap[name] = n
		g.assume("true", fmt.Sprintf("(forall ((a Int)) (! (=> (not (= a %s)) (= (select %s a) (select %s a))) :pattern ((select %s a))))", id, n, h, n))
		g.assume("true", fmt.Sprintf("(forall ((k %s)) (! (= (select (select %s %s) k) (gstr.at %s k)) :pattern ((select (select %s %s) k))))", g.idxSort().SMT(), n, id, v.T, n, id))
		ln := fmt.Sprintf("(gstr.len %s)", v.T)
		r.T = fmt.Sprintf("(mk-slice %s %s %s %s)", id, g.idxLit(0), ln, ln)
		return r
	case fs.K == KSlice && ts.K == KStr:
		// string(b): content snapshot
		es := g.byteSort()
		name, sort := g.elemMapName(es)
		h := g.heapGet(st, name, sort)
		g.declareFun("gstr.of", fmt.Sprintf("((Array %s %s) %s %s) Str", g.idxSort().SMT(), es.SMT(), g.idxSort().SMT(), g.idxSort().SMT()))
		t := g.define("sof", sStr, fmt.Sprintf("(gstr.of (select %s (sl.arr %s)) (sl.off %s) (sl.len %s))", h, v.T, v.T, v.T))
		g.assume("true", fmt.Sprintf("(= (gstr.len %s) (sl.len %s))", t, v.T))
		g.assume("true", fmt.Sprintf("(forall ((k %s)) (! (=> (and %s %s) (= (gstr.at %s k) (select (select %s (sl.arr %s)) %s))) :pattern ((gstr.at %s k))))",
			g.idxSort().SMT(), g.idxLe(g.idxLit(0), "k"), g.idxLt("k", fmt.Sprintf("(sl.len %s)", v.T)), t, h, v.T, g.idxAdd(fmt.Sprintf("(sl.off %s)", v.T), "k"), t))
		r.T = t
		return r
	case fIsInt && ts.K == KStr:
		g.declareFun("gstr.ofrune", "(Int) Str")
		r.T = fmt.Sprintf("(gstr.ofrune %s)", v.T)
		return r
	case fs.K == ts.K:
		r.T = v.T
		return r
	}
	g.errorf("unsupported conversion %s -> %s", ft, tt)
	return g.freshVal("cv", tt, st, "true")
}
