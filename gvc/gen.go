package main

// VC generation over naive-form go/ssa: forward symbolic execution of the acyclic
// (back-edge-cut) CFG with state merging; loops are cut at headers by invariants.

import (
	"fmt"
	"go/ast"
	"go/token"
	"go/types"
	"math/big"
	"sort"
	"strings"

	"golang.org/x/tools/go/ssa"
)

type Obligation struct {
	Func   string // function key
	Clause string // clause label, e.g. post.1
	Inst   int    // instance ordinal within clause
	Class  string // A,B,C,D,E
	Desc   string
	Pos    string
	// query parts
	NAssume  int    // number of assumptions visible
	Guard    string // reach condition
	Goal     string
	Implicit bool // implicit safety obligation (bounds, nil, overflow)
}

type State struct {
	reach  string
	locals map[*ssa.Alloc]Val
	heap   map[string]string // heap var -> term
	ghosts map[string]Val
	alloc  string         // allocation counter term
	gen    int            // id of the last havoc-everything event on this path (0 = none)
	pend   map[string]int // heap vars havoc'd before their first use: name -> havoc id
}

func (s *State) clone() *State {
	n := &State{reach: s.reach, alloc: s.alloc, gen: s.gen, pend: map[string]int{}, locals: make(map[*ssa.Alloc]Val, len(s.locals)), heap: make(map[string]string, len(s.heap)), ghosts: make(map[string]Val, len(s.ghosts))}
	for k, v := range s.locals {
		n.locals[k] = v
	}
	for k, v := range s.heap {
		n.heap[k] = v
	}
	for k, v := range s.ghosts {
		n.ghosts[k] = v
	}
	for k, v := range s.pend {
		n.pend[k] = v
	}
	return n
}

type stepKind int

const (
	stField stepKind = iota
	stIndex
)

type step struct {
	k     stepKind
	field int
	idx   Val
	typ   types.Type // type of the container at this step (struct or array type)
}

type rootKind int

const (
	rLocal rootKind = iota
	rPtr
	rElem
	rGlobal
)

type Addr struct {
	rk       rootKind
	local    *ssa.Alloc
	ptr      Val    // rPtr: pointer value
	arr      string // rElem: backing array id term
	idx      string // rElem: absolute index term
	global   *ssa.Global
	typ      types.Type // type of the root object
	path     []step
	reinterp types.Type // non-nil: the location is read through an unsafe re-view as this type
	text     string     // canonical rendering (for `on` filters), best effort
}

func (a *Addr) extend(s step, text string) *Addr {
	n := *a
	n.path = append(append([]step{}, a.path...), s)
	n.text = text
	return &n
}

type Gen struct {
	W             *World
	fn            *ssa.Function
	spec          *FuncSpec
	key           string
	bv            bool
	decls         []string
	sortDecls     []string
	declared      map[string]bool
	structSorts   map[string]*Sort
	heapSorts     map[string]string // heap var -> SMT sort
	assumes       []string
	axioms        []string
	obls          []*Obligation
	vals          map[ssa.Value]Val
	tuples        map[ssa.Value][]Val
	addrs         map[ssa.Value]*Addr
	exit          map[*ssa.BasicBlock]*State
	entry         *State // function entry state (for old())
	params        map[string]Val
	ctr           int
	errs          []string
	notes         []string // assumptions / abstractions to report
	havocCalls    map[string]int
	loops         map[*ssa.BasicBlock]*loopInfo
	isLocal       map[*ssa.Alloc]bool
	instCount     map[string]int
	strLits       map[string]string
	typeIDs       map[string]int
	modelVars     []ModelVar
	retCount      int
	curBlock      *ssa.BasicBlock
	curPos        token.Pos
	cover         []string        // reach conditions of returns
	usedSpecs     map[string]bool // callee contracts assumed
	axiomsAdded   map[string]bool
	loopHeadState map[*ssa.BasicBlock]*State
	rangeVisited  map[*ssa.Range]string
	frameElems    bool
	globalAddr    map[*ssa.Global]int
	frameDone     bool
	abstractMod   bool
	indexFn       bool
	only          map[ssa.Instruction]bool // init@var: slice (nil: execute everything)
	stableSuffix  []string                 // struct fields no callee writes (ASSUMED, from `stable` clauses): pkg_Type_field
	stableSeen    map[string]bool
	frameNothing  bool
	allocOrder    map[*ssa.Alloc]int
	inputReads    []inputRead
	rets          []retRecord
	frameAll      bool
	frameLocs     []frameLoc
}

type loopInfo struct {
	header  *ssa.BasicBlock
	body    map[*ssa.BasicBlock]bool
	latches []*ssa.BasicBlock
	ordinal int
	spec    *LoopSpec
	stmtPos token.Pos
	dec0    string // measure at header
}

func (g *Gen) fresh(prefix string) string {
	g.ctr++
	return fmt.Sprintf("%s!%d", prefix, g.ctr)
}

func (g *Gen) errorf(format string, a ...any) {
	msg := fmt.Sprintf(format, a...)
	if g.curPos.IsValid() {
		msg += " @" + g.W.pos(g.curPos)
	}
	g.errs = append(g.errs, msg)
}

func (g *Gen) note(s string) {
	for _, n := range g.notes {
		if n == s {
			return
		}
	}
	g.notes = append(g.notes, s)
}

func (g *Gen) declare(name, sort string) {
	if g.declared[name] {
		return
	}
	g.declared[name] = true
	g.decls = append(g.decls, fmt.Sprintf("(declare-const %s %s)", name, sort))
}

func (g *Gen) declareFun(name, sig string) {
	if g.declared[name] {
		return
	}
	g.declared[name] = true
	g.decls = append(g.decls, fmt.Sprintf("(declare-fun %s %s)", name, sig))
}

// define introduces a named term (keeps formulas small and models readable).
func (g *Gen) define(prefix string, s *Sort, term string) string {
	if len(term) < 24 && !strings.ContainsAny(term, " ") {
		return term
	}
	n := g.fresh(prefix)
	g.declared[n] = true
	g.decls = append(g.decls, fmt.Sprintf("(define-fun %s () %s %s)", n, s.SMT(), term))
	return n
}

func (g *Gen) defineRaw(prefix, sort, term string) string {
	if len(term) < 24 && !strings.ContainsAny(term, " ") {
		return term
	}
	n := g.fresh(prefix)
	g.declared[n] = true
	g.decls = append(g.decls, fmt.Sprintf("(define-fun %s () %s %s)", n, sort, term))
	return n
}

func (g *Gen) assume(guard, fact string) {
	if fact == "true" {
		return
	}
	g.assumes = append(g.assumes, sImp(guard, fact))
}

func (g *Gen) oblige(clause, class, desc string, guard, goal string, implicit bool) {
	g.instCount[clause]++
	o := &Obligation{Func: g.key, Clause: clause, Inst: g.instCount[clause], Class: class, Desc: desc, Pos: g.W.pos(g.curPos),
		NAssume: len(g.assumes), Guard: guard, Goal: goal, Implicit: implicit}
	g.obls = append(g.obls, o)
}

// ---------------------------------------------------------------- sorts

func (g *Gen) idxSort() *Sort {
	if g.bv {
		return bvSort(64)
	}
	return sInt
}

func (g *Gen) sortOf(t types.Type) *Sort {
	t = types.Unalias(t)
	if isTimeType(t) {
		return sInt
	}
	if tp, ok := t.(*types.TypeParam); ok && !g.bv && numericTypeParam(tp) {
		// a type parameter whose constraint admits only numeric types: one totally ordered domain, modelled as the
		// mathematical integers (the float instantiations' NaN is not modelled; reported in the evidence)
		g.note(fmt.Sprintf("ASSUMED in %s: type parameter %s (numeric constraint) modelled as a totally ordered integer domain; NaN of float instantiations not modelled", g.key, tp.Obj().Name()))
		return sInt
	}
	switch u := t.Underlying().(type) {
	case *types.Basic:
		switch {
		case u.Info()&types.IsBoolean != 0:
			return sBool
		case u.Info()&types.IsInteger != 0:
			if g.bv {
				ii, _ := basicIntInfo(t)
				return bvSort(ii.w)
			}
			return sInt
		case u.Kind() == types.Float64 || u.Kind() == types.UntypedFloat:
			return sF64
		case u.Kind() == types.Float32:
			return sF32
		case u.Info()&types.IsString != 0:
			return sStr
		case u.Kind() == types.UnsafePointer:
			return sPtr
		case u.Kind() == types.UntypedNil:
			return sPtr
		}
		return sRef
	case *types.Pointer:
		return sPtr
	case *types.Slice:
		return sSlice
	case *types.Map, *types.Chan, *types.Signature:
		return sRef
	case *types.Interface:
		return sIface
	case *types.Struct:
		return g.structSort(t, u)
	case *types.Array:
		return &Sort{K: KArray, Idx: g.idxSort(), Elem: g.sortOf(u.Elem())}
	case *types.Tuple:
		return sRef
	}
	return sRef
}

// numericTypeParam: every term of the constraint's type set is an integer or float basic type.
func numericTypeParam(tp *types.TypeParam) bool {
	iface, ok := tp.Constraint().Underlying().(*types.Interface)
	if !ok {
		return false
	}
	seen := false
	var walk func(t types.Type) bool
	walk = func(t types.Type) bool {
		switch u := types.Unalias(t).(type) {
		case *types.Union:
			for i := 0; i < u.Len(); i++ {
				if !walk(u.Term(i).Type()) {
					return false
				}
			}
			return true
		case *types.Named:
			if in, ok := u.Underlying().(*types.Interface); ok {
				for i := 0; i < in.NumEmbeddeds(); i++ {
					if !walk(in.EmbeddedType(i)) {
						return false
					}
				}
				return in.NumEmbeddeds() > 0
			}
			return walk(u.Underlying())
		case *types.Basic:
			seen = true
			return u.Info()&(types.IsInteger|types.IsFloat) != 0
		}
		return false
	}
	if iface.NumEmbeddeds() == 0 {
		return false
	}
	for i := 0; i < iface.NumEmbeddeds(); i++ {
		if !walk(iface.EmbeddedType(i)) {
			return false
		}
	}
	return seen
}

func isTimeType(t types.Type) bool {
	if t == nil {
		return false
	}
	if n, ok := types.Unalias(t).(*types.Named); ok {
		o := n.Obj()
		return o.Pkg() != nil && o.Pkg().Path() == "time" && o.Name() == "Time"
	}
	return false
}

func isOpaqueStruct(t types.Type) bool {
	if n, ok := types.Unalias(t).(*types.Named); ok {
		o := n.Obj()
		if o.Pkg() != nil {
			switch o.Pkg().Path() {
			case "sync", "sync/atomic":
				return true
			}
		}
	}
	return false
}

func structKey(t types.Type) string {
	t = types.Unalias(t)
	if n, ok := t.(*types.Named); ok {
		o := n.Obj()
		p := ""
		if o.Pkg() != nil {
			p = o.Pkg().Name() + "_"
			// packages with the same name but different paths (e.g. engine/executor and its proto package)
			if pkgNameClash(o.Pkg()) {
				p = mangle(o.Pkg().Path()) + "_"
			}
		}
		s := p + o.Name()
		if ta := n.TypeArgs(); ta != nil && ta.Len() > 0 {
			s += "_" + mangle(types.TypeString(n, func(p *types.Package) string { return p.Name() }))
		}
		return mangle(s)
	}
	return "anon_" + mangle(types.TypeString(t, func(p *types.Package) string { return p.Name() }))
}

func (g *Gen) structSort(t types.Type, st *types.Struct) *Sort {
	key := structKey(t)
	if s, ok := g.structSorts[key]; ok {
		return s
	}
	s := &Sort{K: KStruct, Name: "S_" + key}
	g.structSorts[key] = s
	if isOpaqueStruct(t) || st.NumFields() == 0 {
		s.K = KUnit
		return s
	}
	var fs []string
	for i := 0; i < st.NumFields(); i++ {
		f := st.Field(i)
		fs = append(fs, fmt.Sprintf("(%s %s)", fieldSel(key, f.Name(), i), g.sortOf(f.Type()).SMT()))
	}
	g.sortDecls = append(g.sortDecls, fmt.Sprintf("(declare-datatypes ((%s 0)) (((mk-%s %s))))", s.Name, s.Name, strings.Join(fs, " ")))
	return s
}

func fieldSel(key, fname string, i int) string {
	if fname == "_" {
		fname = fmt.Sprintf("blank%d", i)
	}
	return "f_" + key + "_" + fname
}

// ---------------------------------------------------------------- zero values, range facts

func (g *Gen) zero(t types.Type) Val {
	s := g.sortOf(t)
	v := Val{S: s, G: t}
	switch s.K {
	case KInt:
		if isTimeType(t) {
			v.T = timeZeroNS
		} else {
			v.T = "0"
		}
	case KRef, KUnit:
		v.T = "0"
	case KBool:
		v.T = "false"
	case KBV:
		v.T = bvLit(big.NewInt(0), s.W)
	case KF64:
		v.T = "(_ +zero 11 53)"
	case KF32:
		v.T = "(_ +zero 8 24)"
	case KStr:
		v.T = g.strLit("")
	case KPtr:
		v.T = "pnull"
	case KSlice:
		v.T = g.nilSlice()
	case KIface:
		v.T = "(mk-iface 0 0)"
	case KStruct:
		st := t.Underlying().(*types.Struct)
		var fs []string
		for i := 0; i < st.NumFields(); i++ {
			fs = append(fs, g.zero(st.Field(i).Type()).T)
		}
		v.T = "(mk-" + s.Name + " " + strings.Join(fs, " ") + ")"
	case KArray:
		at := t.Underlying().(*types.Array)
		v.T = fmt.Sprintf("((as const %s) %s)", s.SMT(), g.zero(at.Elem()).T)
	}
	return v
}

// year 1 in ns relative to Unix epoch: -62135596800 s
const timeZeroNS = "(- 62135596800000000000)"

func (g *Gen) idxLit(n int64) string {
	if g.bv {
		return bvLit(big.NewInt(n), 64)
	}
	return intLit(big.NewInt(n))
}

func (g *Gen) nilSlice() string {
	z := g.idxLit(0)
	return fmt.Sprintf("(mk-slice 0 %s %s %s)", z, z, z)
}

// wfFact: facts that hold of every value of the Go type (machine ranges, slice shape).
func (g *Gen) wfFact(v Val, st *State) string {
	if v.G == nil {
		return "true"
	}
	switch v.S.K {
	case KInt:
		if isTimeType(v.G) {
			return "true"
		}
		if ii, ok := basicIntInfo(v.G); ok {
			return fmt.Sprintf("(and (<= %s %s) (<= %s %s))", intLit(ii.min()), v.T, v.T, intLit(ii.max()))
		}
	case KSlice:
		if g.bv {
			f := fmt.Sprintf("(and (>= (sl.arr %[1]s) 0) (bvsle %[2]s (sl.len %[1]s)) (bvsle (sl.len %[1]s) (sl.cap %[1]s)) (bvsle %[2]s (sl.off %[1]s)) (bvslt (sl.cap %[1]s) #x0000100000000000) (bvslt (sl.off %[1]s) #x0000100000000000) (=> (= (sl.arr %[1]s) 0) (= (sl.cap %[1]s) %[2]s)))", v.T, g.idxLit(0))
			if st != nil {
				f = sAnd(f, fmt.Sprintf("(<= (sl.arr %s) %s)", v.T, st.alloc))
			}
			return f
		}
		f := fmt.Sprintf("(and (>= (sl.arr %[1]s) 0) (<= 0 (sl.len %[1]s)) (<= (sl.len %[1]s) (sl.cap %[1]s)) (<= 0 (sl.off %[1]s)) (<= (+ (sl.off %[1]s) (sl.cap %[1]s)) 4611686018427387904) (=> (= (sl.arr %[1]s) 0) (= (sl.cap %[1]s) 0)))", v.T)
		if st != nil {
			f = sAnd(f, fmt.Sprintf("(<= (sl.arr %s) %s)", v.T, st.alloc))
		}
		return f
	case KStr:
		if g.bv {
			return fmt.Sprintf("(and (bvsle %s (gstr.len %s)) (bvslt (gstr.len %s) #x0000100000000000))", g.idxLit(0), v.T, v.T)
		}
		return fmt.Sprintf("(and (<= 0 (gstr.len %s)) (<= (gstr.len %s) 4611686018427387904))", v.T, v.T)
	case KPtr:
		if st != nil {
			return fmt.Sprintf("(and (=> (is-pobj %[1]s) (and (< 0 (pobj.id %[1]s)) (<= (pobj.id %[1]s) %[2]s))) (=> (is-pelem %[1]s) (and (< 0 (pelem.arr %[1]s)) (<= (pelem.arr %[1]s) %[2]s))))", v.T, st.alloc)
		}
	case KRef:
		if st != nil {
			if _, ok := v.G.Underlying().(*types.Map); ok {
				return fmt.Sprintf("(and (<= 0 %s) (<= %s %s))", v.T, v.T, st.alloc)
			}
		}
	}
	return "true"
}

func (g *Gen) freshVal(prefix string, t types.Type, st *State, guard string) Val {
	s := g.sortOf(t)
	n := g.fresh(prefix)
	g.declare(n, s.SMT())
	v := Val{T: n, S: s, G: t}
	g.assume("true", g.wfFact(v, nil))
	if st != nil {
		g.assume(guard, g.wfFact(v, st))
	}
	return v
}

// ---------------------------------------------------------------- strings

func (g *Gen) strLit(s string) string {
	if n, ok := g.strLits[s]; ok {
		return n
	}
	n := fmt.Sprintf("strlit!%d", len(g.strLits))
	g.strLits[s] = n
	g.declare(n, "Str")
	g.assumes = append(g.assumes, fmt.Sprintf("(= (gstr.len %s) %s)", n, g.idxLit(int64(len(s)))))
	g.assumes = append(g.assumes, fmt.Sprintf("(= (gstr.id %s) %d)", n, len(g.strLits)))
	if len(s) <= 16 {
		for i := 0; i < len(s); i++ {
			g.assumes = append(g.assumes, fmt.Sprintf("(= (gstr.at %s %s) %s)", n, g.idxLit(int64(i)), g.byteLit(int64(s[i]))))
		}
	}
	return n
}

func (g *Gen) byteLit(b int64) string {
	if g.bv {
		return bvLit(big.NewInt(b), 8)
	}
	return intLit(big.NewInt(b))
}

func (g *Gen) byteSort() *Sort {
	if g.bv {
		return bvSort(8)
	}
	return sInt
}

// ---------------------------------------------------------------- heap access

func (g *Gen) heapGet(st *State, name, sort string) string {
	if t, ok := st.heap[name]; ok {
		return t
	}
	// first touch: the entry version of this heap variable, unless it was havoc'd on this path
	// before its first use (then: the version of that havoc event)
	g.heapSorts[name] = sort
	g.declare("H0_"+name, sort)
	if g.entry != nil {
		if _, ok := g.entry.heap[name]; !ok {
			g.entry.heap[name] = "H0_" + name
		}
	}
	id := st.gen
	if g.isStable(name) {
		id = 0
	}
	if p, ok := st.pend[name]; ok && p > id {
		id = p
	}
	if strings.HasPrefix(name, "E_") || strings.HasPrefix(name, "C_") {
		if p, ok := st.pend["$elems"]; ok && p > id {
			id = p
		}
	}
	if strings.HasPrefix(name, "GG_") {
		id = 0
		if p, ok := st.pend[name]; ok {
			id = p
		}
	}
	n := "H0_" + name
	if id > 0 {
		n = fmt.Sprintf("Hv%d_%s", id, name)
		g.declare(n, sort)
	}
	st.heap[name] = n
	return n
}

// isStable: heap map of a struct field named in a `stable` clause (matched on the package_Type_field suffix).
func (g *Gen) isStable(name string) bool {
	if !strings.HasPrefix(name, "F_") {
		return false
	}
	for _, sfx := range g.stableSuffix {
		if name == "F_"+sfx || strings.HasSuffix(name, "_"+sfx) {
			g.stableSeen[sfx] = true
			return true
		}
	}
	return false
}

func (g *Gen) fieldMapName(stType types.Type, fi int) (string, string, *Sort) {
	st := stType.Underlying().(*types.Struct)
	f := st.Field(fi)
	fs := g.sortOf(f.Type())
	return "F_" + structKey(stType) + "_" + f.Name(), "(Array Ptr " + fs.SMT() + ")", fs
}

func (g *Gen) elemMapName(es *Sort) (string, string) {
	return "E_" + es.Key(), fmt.Sprintf("(Array Int (Array %s %s))", g.idxSort().SMT(), es.SMT())
}

func (g *Gen) cellMapName(es *Sort) (string, string) {
	return "C_" + es.Key(), fmt.Sprintf("(Array Int %s)", es.SMT())
}

// readRoot reads the value at root+first path step where that matters (struct fields live in field maps).
func (g *Gen) loadAddr(a *Addr, st *State) Val {
	switch a.rk {
	case rLocal:
		v, ok := st.locals[a.local]
		if !ok {
			v = g.zero(a.typ)
		}
		return g.project(v, a.path)
	case rGlobal:
		s := g.sortOf(a.typ)
		name := "G_" + mangle(a.global.Pkg.Pkg.Name()+"_"+a.global.Name())
		t := g.heapGet(st, name, s.SMT())
		if s.K == KIface && strings.HasPrefix(a.global.Name(), "Err") && len(a.path) == 0 {
			// package-level sentinel errors (var ErrX = errors.New(...)) are never nil
			g.assume("true", sNot(sEq(t, "(mk-iface 0 0)")))
			g.note("package-level sentinel errors named Err* are assumed non-nil")
		}
		return g.project(Val{T: t, S: s, G: a.typ}, a.path)
	case rElem:
		if _, ok := a.typ.Underlying().(*types.Struct); ok && !isTimeType(a.typ) && !isOpaqueStruct(a.typ) {
			p := Val{T: fmt.Sprintf("(pelem %s %s)", a.arr, a.idx), S: sPtr}
			return g.loadPtr(p, a.typ, a.path, st)
		}
		es := g.sortOf(a.typ)
		name, sort := g.elemMapName(es)
		h := g.heapGet(st, name, sort)
		v := Val{T: fmt.Sprintf("(select (select %s %s) %s)", h, a.arr, a.idx), S: es, G: a.typ}
		return g.project(v, a.path)
	case rPtr:
		return g.loadPtr(a.ptr, a.typ, a.path, st)
	}
	panic("loadAddr")
}

func (g *Gen) loadPtr(p Val, typ types.Type, path []step, st *State) Val {
	if stt, ok := typ.Underlying().(*types.Struct); ok && !isTimeType(typ) && !isOpaqueStruct(typ) {
		if len(path) > 0 && path[0].k == stField {
			name, sort, fs := g.fieldMapName(typ, path[0].field)
			h := g.heapGet(st, name, sort)
			v := Val{T: fmt.Sprintf("(select %s %s)", h, p.T), S: fs, G: stt.Field(path[0].field).Type()}
			return g.project(v, path[1:])
		}
		// whole struct
		s := g.sortOf(typ)
		if s.K == KUnit {
			return Val{T: "0", S: s, G: typ}
		}
		var fs []string
		for i := 0; i < stt.NumFields(); i++ {
			name, sort, _ := g.fieldMapName(typ, i)
			h := g.heapGet(st, name, sort)
			fs = append(fs, fmt.Sprintf("(select %s %s)", h, p.T))
		}
		return Val{T: "(mk-" + s.Name + " " + strings.Join(fs, " ") + ")", S: s, G: typ}
	}
	es := g.sortOf(typ)
	if es.K == KUnit {
		return Val{T: "0", S: es, G: typ}
	}
	cn, cs := g.cellMapName(es)
	hc := g.heapGet(st, cn, cs)
	var t string
	{
		en, esrt := g.elemMapName(es)
		he := g.heapGet(st, en, esrt)
		t = fmt.Sprintf("(ite (is-pelem %[1]s) (select (select %[2]s (pelem.arr %[1]s)) (pelem.idx %[1]s)) (select %[3]s (pobj.id %[1]s)))", p.T, he, hc)
		if strings.HasPrefix(p.T, "(pobj ") {
			t = fmt.Sprintf("(select %s (pobj.id %s))", hc, p.T)
		}
	}
	return g.project(Val{T: t, S: es, G: typ}, path)
}

func (g *Gen) project(v Val, path []step) Val {
	for _, s := range path {
		switch s.k {
		case stField:
			stt := v.G.Underlying().(*types.Struct)
			f := stt.Field(s.field)
			fs := g.sortOf(f.Type())
			if v.S.K == KUnit {
				v = g.zero(f.Type())
				continue
			}
			v = Val{T: fmt.Sprintf("(%s %s)", fieldSel(structKey(v.G), f.Name(), s.field), v.T), S: fs, G: f.Type()}
		case stIndex:
			at := v.G.Underlying().(*types.Array)
			v = Val{T: fmt.Sprintf("(select %s %s)", v.T, s.idx.T), S: g.sortOf(at.Elem()), G: at.Elem()}
		}
	}
	return v
}

// update returns v with the component at path replaced by nv.
func (g *Gen) update(v Val, path []step, nv Val) Val {
	if len(path) == 0 {
		return Val{T: nv.T, S: v.S, G: v.G}
	}
	s := path[0]
	switch s.k {
	case stField:
		stt := v.G.Underlying().(*types.Struct)
		if v.S.K == KUnit {
			return v
		}
		key := structKey(v.G)
		var fs []string
		for i := 0; i < stt.NumFields(); i++ {
			f := stt.Field(i)
			cur := Val{T: fmt.Sprintf("(%s %s)", fieldSel(key, f.Name(), i), v.T), S: g.sortOf(f.Type()), G: f.Type()}
			if i == s.field {
				cur = g.update(cur, path[1:], nv)
			}
			fs = append(fs, cur.T)
		}
		return Val{T: "(mk-" + v.S.Name + " " + strings.Join(fs, " ") + ")", S: v.S, G: v.G}
	case stIndex:
		at := v.G.Underlying().(*types.Array)
		cur := Val{T: fmt.Sprintf("(select %s %s)", v.T, s.idx.T), S: g.sortOf(at.Elem()), G: at.Elem()}
		cur = g.update(cur, path[1:], nv)
		return Val{T: fmt.Sprintf("(store %s %s %s)", v.T, s.idx.T, cur.T), S: v.S, G: v.G}
	}
	panic("update")
}

func (g *Gen) storeAddr(a *Addr, nv Val, st *State) {
	switch a.rk {
	case rLocal:
		cur, ok := st.locals[a.local]
		if !ok {
			cur = g.zero(a.typ)
		}
		r := g.update(cur, a.path, nv)
		r.T = g.define("l", r.S, r.T)
		st.locals[a.local] = r
	case rGlobal:
		s := g.sortOf(a.typ)
		name := "G_" + mangle(a.global.Pkg.Pkg.Name()+"_"+a.global.Name())
		cur := Val{T: g.heapGet(st, name, s.SMT()), S: s, G: a.typ}
		r := g.update(cur, a.path, nv)
		st.heap[name] = g.define("h", s, r.T)
	case rElem:
		if _, ok := a.typ.Underlying().(*types.Struct); ok && !isTimeType(a.typ) && !isOpaqueStruct(a.typ) {
			p := Val{T: fmt.Sprintf("(pelem %s %s)", a.arr, a.idx), S: sPtr}
			g.storePtr(p, a.typ, a.path, nv, st)
			return
		}
		es := g.sortOf(a.typ)
		name, sort := g.elemMapName(es)
		h := g.heapGet(st, name, sort)
		cur := Val{T: fmt.Sprintf("(select (select %s %s) %s)", h, a.arr, a.idx), S: es, G: a.typ}
		r := g.update(cur, a.path, nv)
		st.heap[name] = g.defineRaw("h", sort, fmt.Sprintf("(store %[1]s %[2]s (store (select %[1]s %[2]s) %[3]s %[4]s))", h, a.arr, a.idx, r.T))
	case rPtr:
		g.storePtr(a.ptr, a.typ, a.path, nv, st)
	}
}

func (g *Gen) storePtr(p Val, typ types.Type, path []step, nv Val, st *State) {
	if stt, ok := typ.Underlying().(*types.Struct); ok && !isTimeType(typ) && !isOpaqueStruct(typ) {
		if len(path) > 0 && path[0].k == stField {
			name, sort, fs := g.fieldMapName(typ, path[0].field)
			h := g.heapGet(st, name, sort)
			cur := Val{T: fmt.Sprintf("(select %s %s)", h, p.T), S: fs, G: stt.Field(path[0].field).Type()}
			r := g.update(cur, path[1:], nv)
			st.heap[name] = g.defineRaw("h", sort, fmt.Sprintf("(store %s %s %s)", h, p.T, r.T))
			return
		}
		// whole struct store: field by field
		if g.sortOf(typ).K == KUnit {
			return
		}
		for i := 0; i < stt.NumFields(); i++ {
			name, sort, _ := g.fieldMapName(typ, i)
			h := g.heapGet(st, name, sort)
			fv := g.project(nv, []step{{k: stField, field: i}})
			st.heap[name] = g.defineRaw("h", sort, fmt.Sprintf("(store %s %s %s)", h, p.T, fv.T))
		}
		return
	}
	es := g.sortOf(typ)
	if es.K == KUnit {
		return
	}
	cn, cs := g.cellMapName(es)
	hc := g.heapGet(st, cn, cs)
	if strings.HasPrefix(p.T, "(pobj ") {
		cur := Val{T: fmt.Sprintf("(select %s (pobj.id %s))", hc, p.T), S: es, G: typ}
		r := g.update(cur, path, nv)
		st.heap[cn] = g.defineRaw("h", cs, fmt.Sprintf("(store %s (pobj.id %s) %s)", hc, p.T, r.T))
		return
	}
	en, esrt := g.elemMapName(es)
	he := g.heapGet(st, en, esrt)
	cur := g.loadPtr(p, typ, nil, st)
	r := g.update(cur, path, nv)
	st.heap[cn] = g.defineRaw("h", cs, fmt.Sprintf("(ite (is-pelem %[1]s) %[2]s (store %[2]s (pobj.id %[1]s) %[3]s))", p.T, hc, r.T))
	st.heap[en] = g.defineRaw("h", esrt, fmt.Sprintf("(ite (is-pelem %[1]s) (store %[2]s (pelem.arr %[1]s) (store (select %[2]s (pelem.arr %[1]s)) (pelem.idx %[1]s) %[3]s)) %[2]s)", p.T, he, r.T))
}

// materialize turns an address into a first-class pointer value where the model allows it.
func (g *Gen) materialize(a *Addr, st *State) (Val, bool) {
	if len(a.path) == 0 {
		switch a.rk {
		case rPtr:
			return a.ptr, true
		case rElem:
			return Val{T: fmt.Sprintf("(pelem %s %s)", a.arr, a.idx), S: sPtr, G: types.NewPointer(a.typ)}, true
		}
	}
	return Val{}, false
}

// ---------------------------------------------------------------- values

func (g *Gen) val(v ssa.Value, st *State) Val {
	if x, ok := g.vals[v]; ok {
		return x
	}
	switch c := v.(type) {
	case *ssa.Const:
		return g.constVal(c)
	case *ssa.Parameter:
		return g.vals[v]
	case *ssa.FreeVar:
		return g.vals[v]
	case *ssa.Global:
		// address of a global used as a value (e.g. method call on a package-level struct): an opaque,
		// non-nil pointer that is distinct from every allocated object and from other globals' addresses.
		// Direct loads/stores of the global use its own cell; memory reached through this pointer is a
		// separate view (noted as an assumption).
		if g.globalAddr == nil {
			g.globalAddr = map[*ssa.Global]int{}
		}
		id, ok := g.globalAddr[c]
		if !ok {
			id = len(g.globalAddr) + 1
			g.globalAddr[c] = id
			g.note(fmt.Sprintf("address of global %s used as a value: modelled as an opaque non-nil pointer", c.Name()))
		}
		r := Val{T: fmt.Sprintf("(pobj (- %d))", id), S: sPtr, G: v.Type()}
		g.vals[v] = r
		return r
	case *ssa.Function:
		n := "fn_" + mangle(c.String())
		g.declare(n, "Int")
		return Val{T: n, S: sRef, G: v.Type()}
	case *ssa.Builtin:
		return Val{T: "0", S: sRef, G: v.Type()}
	}
	if a, ok := g.addrs[v]; ok {
		if m, ok := g.materialize(a, st); ok {
			m.G = v.Type()
			return m
		}
		// opaque pointer (address of a field / local): fresh, unconstrained
		g.note(fmt.Sprintf("address %s used as a value: modelled as an opaque pointer (location havoc'd at calls)", a.text))
		r := g.freshVal("addr", v.Type(), nil, "true")
		g.vals[v] = r
		return r
	}
	g.errorf("no value for %s (%T)", v.Name(), v)
	return g.freshVal("u", v.Type(), nil, "true")
}

func (g *Gen) constVal(c *ssa.Const) Val {
	t := c.Type()
	s := g.sortOf(t)
	v := Val{S: s, G: t}
	if c.Value == nil {
		return g.zero(t)
	}
	switch s.K {
	case KBool:
		v.T = c.Value.String()
	case KInt, KBV:
		n, ok := new(big.Int).SetString(c.Value.ExactString(), 10)
		if !ok {
			// may be a float-typed constant converted; try via Int64
			n = big.NewInt(c.Int64())
		}
		if s.K == KBV {
			v.T = bvLit(n, s.W)
		} else {
			v.T = intLit(n)
		}
	case KF64, KF32:
		f := c.Float64()
		v.T = g.floatLit(f, s)
	case KStr:
		sv := constantStringVal(c)
		v.T = g.strLit(sv)
	default:
		return g.zero(t)
	}
	return v
}

func (g *Gen) floatLit(f float64, s *Sort) string {
	eb, sb := 11, 53
	if s.K == KF32 {
		eb, sb = 8, 24
	}
	if f != f {
		return fmt.Sprintf("(_ NaN %d %d)", eb, sb)
	}
	if f > 1.7976931348623157e308 {
		return fmt.Sprintf("(_ +oo %d %d)", eb, sb)
	}
	if f < -1.7976931348623157e308 {
		return fmt.Sprintf("(_ -oo %d %d)", eb, sb)
	}
	if s.K == KF64 {
		bits := float64bits(f)
		return fmt.Sprintf("((_ to_fp 11 53) #x%016x)", bits)
	}
	bits := float32bits(float32(f))
	return fmt.Sprintf("((_ to_fp 8 24) #x%08x)", bits)
}

// ---------------------------------------------------------------- loops

func (g *Gen) findLoops() {
	g.loops = map[*ssa.BasicBlock]*loopInfo{}
	fn := g.fn
	if len(fn.Blocks) == 0 {
		return
	}
	for _, b := range fn.Blocks {
		for _, s := range b.Succs {
			if s.Dominates(b) {
				li := g.loops[s]
				if li == nil {
					li = &loopInfo{header: s, body: map[*ssa.BasicBlock]bool{s: true}}
					g.loops[s] = li
				}
				li.latches = append(li.latches, b)
				// collect body: blocks that reach b without passing s
				var stack []*ssa.BasicBlock
				if !li.body[b] {
					li.body[b] = true
					stack = append(stack, b)
				}
				for len(stack) > 0 {
					x := stack[len(stack)-1]
					stack = stack[:len(stack)-1]
					for _, p := range x.Preds {
						if !li.body[p] {
							li.body[p] = true
							stack = append(stack, p)
						}
					}
				}
			}
		}
	}
	if len(g.loops) == 0 {
		return
	}
	// map SSA loops to source loop statements (ordinals in source order)
	var stmts []ast.Node
	if syn := fn.Syntax(); syn != nil {
		var body ast.Node
		switch n := syn.(type) {
		case *ast.FuncDecl:
			body = n.Body
		case *ast.FuncLit:
			body = n.Body
		}
		if body != nil {
			ast.Inspect(body, func(n ast.Node) bool {
				switch n.(type) {
				case *ast.FuncLit:
					return false
				case *ast.ForStmt, *ast.RangeStmt:
					stmts = append(stmts, n)
				}
				return true
			})
		}
	}
	var hs []*loopInfo
	for _, li := range g.loops {
		hs = append(hs, li)
	}
	sort.Slice(hs, func(i, j int) bool { return hs[i].header.Index < hs[j].header.Index })
	used := map[int]bool{}
	for _, li := range hs {
		// positions of instructions in the loop body
		var minP, maxP token.Pos
		for b := range li.body {
			for _, in := range b.Instrs {
				p := in.Pos()
				if !p.IsValid() {
					continue
				}
				if !minP.IsValid() || p < minP {
					minP = p
				}
				if p > maxP {
					maxP = p
				}
			}
		}
		best := -1
		for i, s := range stmts {
			if used[i] {
				continue
			}
			if minP.IsValid() && s.Pos() <= minP && maxP <= s.End() {
				if best < 0 || (stmts[best].End()-stmts[best].Pos()) > (s.End()-s.Pos()) {
					best = i
				}
			}
		}
		if best >= 0 {
			used[best] = true
			li.ordinal = best + 1
			li.stmtPos = stmts[best].Pos()
		} else {
			li.ordinal = 100 + li.header.Index // goto-style loop
			if g.spec != nil {
				for _, ls := range g.spec.Loops {
					if ls.Label != "" && ls.Label == li.header.Comment {
						li.ordinal = ls.Ordinal
					}
				}
			}
		}
		if g.spec != nil {
			li.spec = g.spec.Loops[li.ordinal]
		}
	}
}

// modifiedInLoop: locals and heap maps written inside the loop body.
func (g *Gen) loopWrites(li *loopInfo) (locals map[*ssa.Alloc]bool, allHeap bool, heapNames map[string]bool) {
	locals = map[*ssa.Alloc]bool{}
	heapNames = map[string]bool{}
	for b := range li.body {
		for _, in := range b.Instrs {
			switch x := in.(type) {
			case *ssa.Store:
				if a := g.rootAlloc(x.Addr); a != nil && g.isLocal[a] {
					locals[a] = true
				} else {
					for _, n := range g.storeTargets(x.Addr) {
						heapNames[n] = true
					}
				}
			case *ssa.MapUpdate:
				allHeap = true // refined below by name
			case ssa.CallInstruction:
				allHeap = true
			case *ssa.Alloc:
				if g.isLocal[x] {
					locals[x] = true
				} else {
					allHeap = true
				}
			case *ssa.MakeSlice, *ssa.MakeMap, *ssa.Next:
				allHeap = true
			}
		}
	}
	return
}

func (g *Gen) rootAlloc(v ssa.Value) *ssa.Alloc {
	for {
		switch x := v.(type) {
		case *ssa.Alloc:
			return x
		case *ssa.FieldAddr:
			v = x.X
		case *ssa.IndexAddr:
			if _, ok := x.X.Type().Underlying().(*types.Pointer); ok {
				v = x.X
			} else {
				return nil
			}
		default:
			return nil
		}
	}
}

// storeTargets: heap var names possibly written by a store through address v (best effort; empty ⇒ unknown).
func (g *Gen) storeTargets(v ssa.Value) []string {
	return nil
}

// ambiguousPkgNames: package names used by more than one import path in the loaded world
// (set once by loadWorld; deterministic for a given set of loaded packages).
var ambiguousPkgNames = map[string]bool{}

func pkgNameClash(p *types.Package) bool {
	return ambiguousPkgNames[p.Name()]
}
