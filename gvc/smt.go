package main

import (
	"fmt"
	"go/types"
	"math/big"
	"sort"
	"strings"
)

type bigIntT = big.Int

type SortKind int

const (
	KInt SortKind = iota
	KBool
	KBV
	KF64
	KF32
	KStr
	KPtr
	KSlice
	KRef // map / chan / func / opaque: Int handle
	KIface
	KStruct
	KArray
	KUnit
)

type Sort struct {
	K    SortKind
	W    int    // bv width
	Name string // struct datatype name
	Elem *Sort  // array element
	Idx  *Sort  // array index sort
}

var (
	sInt   = &Sort{K: KInt}
	sBool  = &Sort{K: KBool}
	sF64   = &Sort{K: KF64}
	sF32   = &Sort{K: KF32}
	sStr   = &Sort{K: KStr}
	sPtr   = &Sort{K: KPtr}
	sSlice = &Sort{K: KSlice}
	sRef   = &Sort{K: KRef}
	sIface = &Sort{K: KIface}
)

var bvSorts = map[int]*Sort{}

func bvSort(w int) *Sort {
	if s, ok := bvSorts[w]; ok {
		return s
	}
	s := &Sort{K: KBV, W: w}
	bvSorts[w] = s
	return s
}

func (s *Sort) SMT() string {
	switch s.K {
	case KInt, KRef:
		return "Int"
	case KBool:
		return "Bool"
	case KBV:
		return fmt.Sprintf("(_ BitVec %d)", s.W)
	case KF64:
		return "(_ FloatingPoint 11 53)"
	case KF32:
		return "(_ FloatingPoint 8 24)"
	case KStr:
		return "Str"
	case KPtr:
		return "Ptr"
	case KSlice:
		return "Slice"
	case KIface:
		return "Iface"
	case KStruct:
		return s.Name
	case KArray:
		return "(Array " + s.Idx.SMT() + " " + s.Elem.SMT() + ")"
	case KUnit:
		return "Int"
	}
	panic("sort")
}

func (s *Sort) Key() string { return mangle(s.SMT()) }

func mangle(s string) string {
	r := strings.NewReplacer("(", "", ")", "", " ", "_", "*", "p", "/", "_", ".", "_", "[", "_", "]", "_", "{", "_", "}", "_", ",", "_", ";", "_", "-", "_", ":", "_", "#", "_", "$", "_")
	return r.Replace(s)
}

// Val: an SMT term with its sort and (when known) Go type.
type Val struct {
	T string
	S *Sort
	G types.Type
	// untyped integer constant (from specs): S==nil, C set
	C *big.Int
}

func (v Val) untyped() bool { return v.S == nil && v.C != nil }

// ---------------------------------------------------------------- small term helpers

func sAnd(xs ...string) string {
	var ys []string
	for _, x := range xs {
		if x == "true" || x == "" {
			continue
		}
		if x == "false" {
			return "false"
		}
		ys = append(ys, x)
	}
	switch len(ys) {
	case 0:
		return "true"
	case 1:
		return ys[0]
	}
	return "(and " + strings.Join(ys, " ") + ")"
}

func sOr(xs ...string) string {
	var ys []string
	for _, x := range xs {
		if x == "false" || x == "" {
			continue
		}
		if x == "true" {
			return "true"
		}
		ys = append(ys, x)
	}
	switch len(ys) {
	case 0:
		return "false"
	case 1:
		return ys[0]
	}
	return "(or " + strings.Join(ys, " ") + ")"
}

func sNot(x string) string {
	switch x {
	case "true":
		return "false"
	case "false":
		return "true"
	}
	if strings.HasPrefix(x, "(not ") && balanced(x[5:len(x)-1]) {
		return x[5 : len(x)-1]
	}
	return "(not " + x + ")"
}

func balanced(s string) bool {
	d := 0
	for i := 0; i < len(s); i++ {
		switch s[i] {
		case '(':
			d++
		case ')':
			d--
			if d < 0 {
				return false
			}
		case ' ':
			if d == 0 {
				return false
			}
		}
	}
	return d == 0
}

func sImp(a, b string) string {
	if a == "true" {
		return b
	}
	if b == "true" || a == "false" {
		return "true"
	}
	return "(=> " + a + " " + b + ")"
}

func sIte(c, a, b string) string {
	if c == "true" {
		return a
	}
	if c == "false" {
		return b
	}
	if a == b {
		return a
	}
	return "(ite " + c + " " + a + " " + b + ")"
}

func sEq(a, b string) string {
	if a == b {
		return "true"
	}
	return "(= " + a + " " + b + ")"
}

func intLit(n *big.Int) string {
	if n.Sign() < 0 {
		return "(- " + new(big.Int).Neg(n).String() + ")"
	}
	return n.String()
}

func bvLit(n *big.Int, w int) string {
	m := new(big.Int).Lsh(big.NewInt(1), uint(w))
	v := new(big.Int).Mod(n, m)
	return fmt.Sprintf("(_ bv%s %d)", v.String(), w)
}

func pow2(n int) *big.Int { return new(big.Int).Lsh(big.NewInt(1), uint(n)) }

// ---------------------------------------------------------------- machine integer info

type intInfo struct {
	w      int
	signed bool
}

func basicIntInfo(t types.Type) (intInfo, bool) {
	b, ok := t.Underlying().(*types.Basic)
	if !ok {
		return intInfo{}, false
	}
	switch b.Kind() {
	case types.Int, types.Int64, types.UntypedInt, types.UntypedRune:
		return intInfo{64, true}, true
	case types.Int32:
		return intInfo{32, true}, true
	case types.Int16:
		return intInfo{16, true}, true
	case types.Int8:
		return intInfo{8, true}, true
	case types.Uint, types.Uint64, types.Uintptr:
		return intInfo{64, false}, true
	case types.Uint32:
		return intInfo{32, false}, true
	case types.Uint16:
		return intInfo{16, false}, true
	case types.Uint8:
		return intInfo{8, false}, true
	}
	return intInfo{}, false
}

func (ii intInfo) min() *big.Int {
	if !ii.signed {
		return big.NewInt(0)
	}
	return new(big.Int).Neg(pow2(ii.w - 1))
}
func (ii intInfo) max() *big.Int {
	if !ii.signed {
		return new(big.Int).Sub(pow2(ii.w), big.NewInt(1))
	}
	return new(big.Int).Sub(pow2(ii.w-1), big.NewInt(1))
}

// ---------------------------------------------------------------- query assembly

// Query is one SMT-LIB problem: prove goal under the assumptions.
type Query struct {
	Name     string
	Preamble string
	Decls    []string
	Assumes  []string
	Goal     string // to be proved (negated in the query)
	Vars     []ModelVar
}

type ModelVar struct {
	Name string // display name (parameter path)
	Term string
	Sort string
}

func (q *Query) Text(withModel bool) string {
	var b strings.Builder
	b.WriteString(q.Preamble)
	for _, d := range q.Decls {
		b.WriteString(d)
		b.WriteByte('\n')
	}
	for _, a := range q.Assumes {
		if a == "true" {
			continue
		}
		b.WriteString("(assert ")
		b.WriteString(a)
		b.WriteString(")\n")
	}
	b.WriteString("(assert (not ")
	b.WriteString(q.Goal)
	b.WriteString("))\n(check-sat)\n")
	if withModel && len(q.Vars) > 0 {
		b.WriteString("(get-value (")
		for _, v := range q.Vars {
			b.WriteString(v.Term)
			b.WriteByte(' ')
		}
		b.WriteString("))\n")
	}
	return b.String()
}

func sortedKeys[V any](m map[string]V) []string {
	ks := make([]string, 0, len(m))
	for k := range m {
		ks = append(ks, k)
	}
	sort.Strings(ks)
	return ks
}
