package main

// Contract files: comment-only Go files (//go:build verif) whose `//@` lines carry
// Gobra-flavoured contracts, keyed by function name and loop ordinal.

import (
	"fmt"
	"os"
	"strconv"
	"strings"
	"unicode"
)

// ---------------------------------------------------------------- spec expression AST

type Expr interface{ String() string }

type (
	EIdent struct{ Name string }
	EInt   struct{ V string } // decimal text (may be big)
	EBool  struct{ V bool }
	EStr   struct{ V string }
	ENil   struct{}
	EUnary struct {
		Op string
		X  Expr
	}
	EBin struct {
		Op   string
		L, R Expr
	}
	ESel struct {
		X Expr
		F string
	}
	EIndex struct{ X, I Expr }
	ESlice struct{ X, Lo, Hi Expr } // Lo/Hi may be nil
	ECall  struct {
		Fn   string
		Args []Expr
	}
	EQuant struct {
		Forall bool
		Vars   []QVar
		Body   Expr
	}
	EOld  struct{ X Expr }
	ECond struct{ C, A, B Expr } // C ? A : B
)

type QVar struct{ Name, Type string }

func (e EIdent) String() string { return e.Name }
func (e EInt) String() string   { return e.V }
func (e EBool) String() string  { return fmt.Sprint(e.V) }
func (e EStr) String() string   { return strconv.Quote(e.V) }
func (e ENil) String() string   { return "nil" }
func (e EUnary) String() string { return e.Op + e.X.String() }
func (e EBin) String() string   { return "(" + e.L.String() + " " + e.Op + " " + e.R.String() + ")" }
func (e ESel) String() string   { return e.X.String() + "." + e.F }
func (e EIndex) String() string { return e.X.String() + "[" + e.I.String() + "]" }
func (e ESlice) String() string {
	lo, hi := "", ""
	if e.Lo != nil {
		lo = e.Lo.String()
	}
	if e.Hi != nil {
		hi = e.Hi.String()
	}
	return e.X.String() + "[" + lo + ":" + hi + "]"
}
func (e ECall) String() string {
	var a []string
	for _, x := range e.Args {
		a = append(a, x.String())
	}
	return e.Fn + "(" + strings.Join(a, ", ") + ")"
}
func (e EQuant) String() string {
	q := "exists"
	if e.Forall {
		q = "forall"
	}
	var vs []string
	for _, v := range e.Vars {
		vs = append(vs, v.Name+" "+v.Type)
	}
	return "(" + q + " " + strings.Join(vs, ", ") + " :: " + e.Body.String() + ")"
}
func (e EOld) String() string { return "old(" + e.X.String() + ")" }
func (e ECond) String() string {
	return "(" + e.C.String() + " ? " + e.A.String() + " : " + e.B.String() + ")"
}

// ---------------------------------------------------------------- lexer

type tok struct {
	k string // "id","int","str","op","eof"
	s string
}

func lexSpec(src string) ([]tok, error) {
	var out []tok
	i := 0
	for i < len(src) {
		c := src[i]
		switch {
		case c == ' ' || c == '\t':
			i++
		case unicode.IsLetter(rune(c)) || c == '_' || c == '$':
			j := i
			for j < len(src) && (unicode.IsLetter(rune(src[j])) || unicode.IsDigit(rune(src[j])) || src[j] == '_' || src[j] == '$') {
				j++
			}
			out = append(out, tok{"id", src[i:j]})
			i = j
		case c >= '0' && c <= '9':
			j := i
			if strings.HasPrefix(src[i:], "0x") || strings.HasPrefix(src[i:], "0X") {
				j = i + 2
				for j < len(src) && strings.ContainsRune("0123456789abcdefABCDEF_", rune(src[j])) {
					j++
				}
			} else {
				for j < len(src) && (src[j] >= '0' && src[j] <= '9' || src[j] == '_') {
					j++
				}
			}
			out = append(out, tok{"int", strings.ReplaceAll(src[i:j], "_", "")})
			i = j
		case c == '"':
			j := i + 1
			for j < len(src) && src[j] != '"' {
				if src[j] == '\\' {
					j++
				}
				j++
			}
			if j >= len(src) {
				return nil, fmt.Errorf("unterminated string in %q", src)
			}
			s, err := strconv.Unquote(src[i : j+1])
			if err != nil {
				return nil, err
			}
			out = append(out, tok{"str", s})
			i = j + 1
		case c == '\'':
			// byte literal
			j := i + 1
			for j < len(src) && src[j] != '\'' {
				if src[j] == '\\' {
					j++
				}
				j++
			}
			r, _, _, err := strconv.UnquoteChar(src[i+1:j], '\'')
			if err != nil {
				return nil, err
			}
			out = append(out, tok{"int", strconv.Itoa(int(r))})
			i = j + 1
		default:
			ops := []string{"<==>", "==>", "::", "&&", "||", "==", "!=", "<=", ">=", "<<", ">>", "&^",
				"+", "-", "*", "/", "%", "<", ">", "!", "(", ")", "[", "]", ".", ",", ":", "&", "|", "^", "?", "{", "}"}
			matched := false
			for _, op := range ops {
				if strings.HasPrefix(src[i:], op) {
					out = append(out, tok{"op", op})
					i += len(op)
					matched = true
					break
				}
			}
			if !matched {
				return nil, fmt.Errorf("bad character %q in spec %q", c, src)
			}
		}
	}
	out = append(out, tok{"eof", ""})
	return out, nil
}

// ---------------------------------------------------------------- parser (precedence climbing)

type sparser struct {
	t []tok
	p int
}

func (p *sparser) peek() tok { return p.t[p.p] }
func (p *sparser) next() tok { t := p.t[p.p]; p.p++; return t }
func (p *sparser) isOp(s string) bool {
	t := p.peek()
	return t.k == "op" && t.s == s
}
func (p *sparser) accept(s string) bool {
	if p.isOp(s) {
		p.p++
		return true
	}
	return false
}
func (p *sparser) expect(s string) {
	if !p.accept(s) {
		panic(fmt.Sprintf("expected %q, got %q", s, p.peek().s))
	}
}

func ParseSpecExpr(src string) (e Expr, err error) {
	toks, err := lexSpec(src)
	if err != nil {
		return nil, err
	}
	p := &sparser{t: toks}
	defer func() {
		if r := recover(); r != nil {
			err = fmt.Errorf("spec parse error in %q: %v", src, r)
		}
	}()
	e = p.parseExpr()
	if p.peek().k != "eof" {
		panic(fmt.Sprintf("trailing token %q", p.peek().s))
	}
	return e, nil
}

func (p *sparser) parseExpr() Expr {
	// quantifiers bind loosest
	if t := p.peek(); t.k == "id" && (t.s == "forall" || t.s == "exists") {
		p.next()
		var vars []QVar
		for {
			n := p.next()
			if n.k != "id" {
				panic("quantifier variable expected")
			}
			star := ""
			if p.accept("*") {
				star = "*"
			}
			ty := p.next()
			if ty.k != "id" {
				panic("quantifier type expected")
			}
			vars = append(vars, QVar{n.s, star + ty.s})
			if !p.accept(",") {
				break
			}
		}
		p.expect("::")
		body := p.parseExpr()
		return EQuant{Forall: t.s == "forall", Vars: vars, Body: body}
	}
	return p.parseCond()
}

func (p *sparser) parseCond() Expr {
	c := p.parseIff()
	if p.accept("?") {
		a := p.parseExpr()
		p.expect(":")
		b := p.parseExpr()
		return ECond{c, a, b}
	}
	return c
}

func (p *sparser) parseIff() Expr {
	l := p.parseImpl()
	for p.accept("<==>") {
		r := p.parseImpl()
		l = EBin{"<==>", l, r}
	}
	return l
}

func (p *sparser) parseImpl() Expr {
	l := p.parseOr()
	if p.accept("==>") {
		// right assoc; rhs may be a quantifier
		var r Expr
		if t := p.peek(); t.k == "id" && (t.s == "forall" || t.s == "exists") {
			r = p.parseExpr()
		} else {
			r = p.parseImpl()
		}
		return EBin{"==>", l, r}
	}
	return l
}

func (p *sparser) parseOr() Expr {
	l := p.parseAnd()
	for p.accept("||") {
		r := p.parseAnd()
		l = EBin{"||", l, r}
	}
	return l
}

func (p *sparser) parseAnd() Expr {
	l := p.parseCmp()
	for p.accept("&&") {
		r := p.parseCmp()
		l = EBin{"&&", l, r}
	}
	return l
}

func (p *sparser) parseCmp() Expr {
	l := p.parseAdd()
	for {
		t := p.peek()
		if t.k == "op" && (t.s == "==" || t.s == "!=" || t.s == "<" || t.s == "<=" || t.s == ">" || t.s == ">=") {
			p.next()
			r := p.parseAdd()
			l = EBin{t.s, l, r}
			continue
		}
		if t.k == "id" && t.s == "in" {
			p.next()
			r := p.parseAdd()
			l = EBin{"in", l, r}
			continue
		}
		return l
	}
}

func (p *sparser) parseAdd() Expr {
	l := p.parseMul()
	for {
		t := p.peek()
		if t.k == "op" && (t.s == "+" || t.s == "-" || t.s == "|" || t.s == "^") {
			p.next()
			r := p.parseMul()
			l = EBin{t.s, l, r}
			continue
		}
		return l
	}
}

func (p *sparser) parseMul() Expr {
	l := p.parseUnary()
	for {
		t := p.peek()
		if t.k == "op" && (t.s == "*" || t.s == "/" || t.s == "%" || t.s == "&" || t.s == "<<" || t.s == ">>" || t.s == "&^") {
			p.next()
			r := p.parseUnary()
			l = EBin{t.s, l, r}
			continue
		}
		return l
	}
}

func (p *sparser) parseUnary() Expr {
	t := p.peek()
	if t.k == "op" && (t.s == "!" || t.s == "-" || t.s == "^") {
		p.next()
		x := p.parseUnary()
		return EUnary{t.s, x}
	}
	return p.parsePostfix()
}

func (p *sparser) parsePostfix() Expr {
	x := p.parsePrimary()
	for {
		switch {
		case p.accept("."):
			n := p.next()
			if n.k != "id" {
				panic("field name expected")
			}
			x = ESel{x, n.s}
		case p.accept("["):
			var lo, hi Expr
			if p.isOp(":") {
				p.next()
				if !p.isOp("]") {
					hi = p.parseExpr()
				}
				p.expect("]")
				x = ESlice{x, nil, hi}
				continue
			}
			lo = p.parseExpr()
			if p.accept(":") {
				if !p.isOp("]") {
					hi = p.parseExpr()
				}
				p.expect("]")
				x = ESlice{x, lo, hi}
				continue
			}
			p.expect("]")
			x = EIndex{x, lo}
		case p.isOp("("):
			// call: only on identifiers / selectors rendered as dotted names
			name := ""
			switch f := x.(type) {
			case EIdent:
				name = f.Name
			case ESel:
				name = f.String()
			default:
				panic("call of non-name")
			}
			p.next()
			var args []Expr
			if !p.isOp(")") {
				for {
					args = append(args, p.parseExpr())
					if !p.accept(",") {
						break
					}
				}
			}
			p.expect(")")
			if name == "old" {
				if len(args) != 1 {
					panic("old takes one argument")
				}
				x = EOld{args[0]}
			} else {
				x = ECall{name, args}
			}
		default:
			return x
		}
	}
}

func (p *sparser) parsePrimary() Expr {
	t := p.next()
	switch t.k {
	case "id":
		switch t.s {
		case "true":
			return EBool{true}
		case "false":
			return EBool{false}
		case "nil":
			return ENil{}
		}
		return EIdent{t.s}
	case "int":
		if strings.HasPrefix(t.s, "0x") || strings.HasPrefix(t.s, "0X") {
			v, ok := new(bigInt).SetString(t.s[2:], 16)
			if !ok {
				panic("bad hex literal")
			}
			return EInt{v.String()}
		}
		return EInt{t.s}
	case "str":
		return EStr{t.s}
	case "op":
		if t.s == "(" {
			e := p.parseExpr()
			p.expect(")")
			return e
		}
	}
	panic(fmt.Sprintf("unexpected token %q", t.s))
}

// ---------------------------------------------------------------- contract structures

type Clause struct {
	Label    string // e.g. post.1, pre.2
	Src      string
	E        Expr
	Triggers []Expr // optional instantiation pattern for a quantified axiom
}

type LoopSpec struct {
	Label      string // goto-style loop: label of the loop head
	Ordinal    int
	Invariants []Clause
	Decreases  *Clause
}

type GhostVar struct {
	Name, Type string
	Init       Expr
}

type GhostSet struct {
	Var string
	E   Expr
	Src string
}

// CallRule: protocol obligation / ghost update at call sites (or field stores) inside a function.
type CallRule struct {
	Label        string
	Pattern      string // callee pattern; for stores: "store T.f"
	IsStore      bool
	On           string // optional canonical receiver/first-arg path filter
	With         string // optional: some argument's source text must equal this
	Requires     []Clause
	Sets         []GhostSet
	Assume       []Clause // assumed facts about the call's results (listed as assumptions)
	FrameNothing bool     // the (dynamic/uncontracted) callee is assumed to write no caller-visible location
	Matched      int
	Never        bool // `never [label]`: the rule is a prohibition (requires false); matching nothing is the passing state
}

type AssignTarget struct {
	Src   string
	All   bool   // everything
	Expr  Expr   // p.f | s[*] (EIndex with I==EIdent{"*"}) | ...
	Map   string // "T::f" whole field map
	Elems bool   // "elements": all element/cell maps
}

type FuncSpec struct {
	Name             string // as written: "Mark.And", "(*ShardGroupInfo).Contains", "NewMark", "authenticate$1"
	Pkg              string // import path of package owning the contract file
	File             string
	Line             int
	Props            []string
	Mode             string // "int" | "bv"
	Requires         []Clause
	Ensures          []Clause
	TrustedEnsures   []Clause // assumed at call sites, not checked against the body
	Loops            map[int]*LoopSpec
	Ghosts           []GhostVar
	Calls            []*CallRule
	Assigns          []AssignTarget
	HasAssigns       bool
	TrustedFrame     bool // assigns clause assumed at call sites, not checked against the body
	Trusted          bool // contract assumed, body not verified
	Extern           bool // function outside /repo; contract assumed
	NoPanic          bool
	NoOverflow       bool
	IndexFn          bool     // slice element positions are sl.ix(off,i) (uninterpreted, axiom off+i): E-matching finds a[e] for arithmetic e
	AbstractMod      bool     // remainders with a symbolic divisor are uninterpreted (with range facts)
	Stable           []string // struct fields (pkg.Type.field) assumed not to be written by any callee of this function
	OnErrorUnchanged []Expr
	Carries          []*CarrySpec
	FieldCover       []*FieldCoverSpec
	Pure             bool
	Unfold           int      // loop unrolling for constant loops (0 = none)
	Opaque           []string // callees to treat as havoc even if contracted
	Bounded          string
	Notes            []string
}

// CarrySpec: structural completeness (class D): every field of the source struct is carried to dst.
type CarrySpec struct {
	Src, Dst Expr
	Except   map[string]string // field -> reason (checked elsewhere / intentionally dropped)
	Shared   map[string]string // reference fields that may alias the source, with reason
	Src0     string
}

// FieldCoverSpec: syntactic structural completeness: every field of a struct is read from a parameter
// (encoders) or written in values of a type (decoders), except those listed with a reason.
type FieldCoverSpec struct {
	Writes   bool
	Target   string // parameter name (reads) or type name (writes)
	Except   map[string]string
	AllPaths bool // writes_all_paths: the field is stored on EVERY path to a return
}

type SpecFunc struct {
	Name   string
	Params []QVar
	Ret    string
	Body   Expr // nil ⇒ uninterpreted
	Src    string
}

type Lemma struct {
	Name     string
	Pkg      string
	Props    []string
	Params   []QVar
	Requires []Clause
	Ensures  []Clause
	Mode     string
}

type GlobalGhost struct {
	Name, Type string
}

type SpecFile struct {
	Globals   []GlobalGhost
	Funcs     []*FuncSpec
	SpecFuncs []*SpecFunc
	Lemmas    []*Lemma
	Axioms    []Clause
	Imports   map[string]string // alias -> import path (disambiguates packages that share a name)
}

type bigInt = bigIntT

// parseContractFile reads one zz_verif_contracts.go file.
func parseContractFile(path, pkgPath string) (*SpecFile, error) {
	data, err := os.ReadFile(path)
	if err != nil {
		return nil, err
	}
	sf := &SpecFile{}
	var cur *FuncSpec
	var curLemma *Lemma
	var curLoop *LoopSpec
	var curCall *CallRule
	var curProps []string
	lines := strings.Split(string(data), "\n")
	// join continuation lines: a line ending with '\' continues
	for ln := 0; ln < len(lines); ln++ {
		raw := strings.TrimSpace(lines[ln])
		if !strings.HasPrefix(raw, "//@") {
			continue
		}
		text := strings.TrimSpace(raw[3:])
		startLn := ln + 1
		for strings.HasSuffix(text, "\\") && ln+1 < len(lines) {
			nxt := strings.TrimSpace(lines[ln+1])
			if !strings.HasPrefix(nxt, "//@") {
				break
			}
			text = strings.TrimSuffix(text, "\\") + " " + strings.TrimSpace(nxt[3:])
			ln++
		}
		if text == "" || strings.HasPrefix(text, "#") {
			continue
		}
		// strip trailing comment  " // ..."
		if i := strings.Index(text, " // "); i >= 0 {
			text = strings.TrimSpace(text[:i])
		}
		kw, rest := splitKw(text)
		fail := func(e error) error { return fmt.Errorf("%s:%d: %v", path, startLn, e) }
		mkClause := func(prefix string, n int, src string) (Clause, error) {
			label := fmt.Sprintf("%s.%d", prefix, n)
			// optional explicit label:  [name] expr
			if strings.HasPrefix(src, "[") {
				if j := strings.Index(src, "]"); j > 0 && !strings.ContainsAny(src[1:j], " :") {
					label = prefix + "." + src[1:j]
					src = strings.TrimSpace(src[j+1:])
				}
			}
			e, err := ParseSpecExpr(src)
			if err != nil {
				return Clause{}, err
			}
			return Clause{Label: label, Src: src, E: e}, nil
		}
		switch kw {
		case "prop":
			curProps = strings.Fields(rest)
		case "func":
			cur = &FuncSpec{Name: strings.TrimSpace(rest), Pkg: pkgPath, File: path, Line: startLn, Props: curProps, Mode: "int", Loops: map[int]*LoopSpec{}}
			sf.Funcs = append(sf.Funcs, cur)
			curLemma, curLoop, curCall = nil, nil, nil
		case "lemma":
			// lemma name(a int, b bool)
			name, params, _, err := parseSig(rest)
			if err != nil {
				return nil, fail(err)
			}
			curLemma = &Lemma{Name: name, Pkg: pkgPath, Params: params, Props: curProps, Mode: "int"}
			sf.Lemmas = append(sf.Lemmas, curLemma)
			cur, curLoop, curCall = nil, nil, nil
		case "pure", "spec":
			// spec func name(a int, b int) bool = expr     | spec func name(a int) int   (uninterpreted)
			rest = strings.TrimPrefix(strings.TrimSpace(rest), "func ")
			sig := rest
			body := ""
			if i := strings.Index(rest, " = "); i >= 0 {
				sig, body = rest[:i], rest[i+3:]
			}
			name, params, ret, err := parseSig(sig)
			if err != nil {
				return nil, fail(err)
			}
			s := &SpecFunc{Name: name, Params: params, Ret: ret, Src: body}
			if body != "" {
				e, err := ParseSpecExpr(body)
				if err != nil {
					return nil, fail(err)
				}
				s.Body = e
			}
			sf.SpecFuncs = append(sf.SpecFuncs, s)
		case "import":
			// import ALIAS "path": in this contract file ALIAS names exactly that package
			fs := strings.Fields(rest)
			if len(fs) != 2 {
				return nil, fail(fmt.Errorf("import: want ALIAS \"path\""))
			}
			if sf.Imports == nil {
				sf.Imports = map[string]string{}
			}
			sf.Imports[fs[0]] = strings.Trim(fs[1], "\"")
		case "axiom":
			// optional trigger:  axiom {dv(s, d); p10(s)} forall ...
			var trig []Expr
			if strings.HasPrefix(rest, "{") {
				if j := strings.Index(rest, "}"); j > 0 {
					for _, t := range strings.Split(rest[1:j], ";") {
						te, err := ParseSpecExpr(strings.TrimSpace(t))
						if err != nil {
							return nil, fail(err)
						}
						trig = append(trig, te)
					}
					rest = strings.TrimSpace(rest[j+1:])
				}
			}
			c, err := mkClause("axiom", len(sf.Axioms)+1, rest)
			if err != nil {
				return nil, fail(err)
			}
			c.Triggers = trig
			sf.Axioms = append(sf.Axioms, c)
		case "mode":
			if cur != nil {
				cur.Mode = rest
			} else if curLemma != nil {
				curLemma.Mode = rest
			}
		case "requires":
			if curCall != nil {
				c, err := mkClause(curCall.Label+".req", len(curCall.Requires)+1, rest)
				if err != nil {
					return nil, fail(err)
				}
				curCall.Requires = append(curCall.Requires, c)
			} else if cur != nil {
				c, err := mkClause("pre", len(cur.Requires)+1, rest)
				if err != nil {
					return nil, fail(err)
				}
				cur.Requires = append(cur.Requires, c)
			} else if curLemma != nil {
				c, err := mkClause("pre", len(curLemma.Requires)+1, rest)
				if err != nil {
					return nil, fail(err)
				}
				curLemma.Requires = append(curLemma.Requires, c)
			} else {
				return nil, fail(fmt.Errorf("requires outside func/lemma"))
			}
		case "never":
			// inside a call/store rule: this call (store) must not occur in the function at all - an ownership / frame
			// condition ("does not hand the buffer back to the pool", "never assigns the field directly")
			if curCall == nil {
				return nil, fail(fmt.Errorf("never outside call rule"))
			}
			c, err := mkClause(curCall.Label+".req", len(curCall.Requires)+1, strings.TrimSpace(rest+" false"))
			if err != nil {
				return nil, fail(err)
			}
			curCall.Requires = append(curCall.Requires, c)
			curCall.Never = true
		case "ensures":
			if cur != nil {
				curCall, curLoop = nil, nil
				c, err := mkClause("post", len(cur.Ensures)+1, rest)
				if err != nil {
					return nil, fail(err)
				}
				cur.Ensures = append(cur.Ensures, c)
			} else if curLemma != nil {
				c, err := mkClause("post", len(curLemma.Ensures)+1, rest)
				if err != nil {
					return nil, fail(err)
				}
				curLemma.Ensures = append(curLemma.Ensures, c)
			} else {
				return nil, fail(fmt.Errorf("ensures outside func/lemma"))
			}
		case "trusted_ensures":
			if cur == nil {
				return nil, fail(fmt.Errorf("trusted_ensures outside func"))
			}
			c, err := mkClause("tpost", len(cur.TrustedEnsures)+1, rest)
			if err != nil {
				return nil, fail(err)
			}
			cur.TrustedEnsures = append(cur.TrustedEnsures, c)
		case "global":
			// global ghost name type
			f := strings.Fields(rest)
			if len(f) != 3 || f[0] != "ghost" {
				return nil, fail(fmt.Errorf("want `global ghost name type`"))
			}
			sf.Globals = append(sf.Globals, GlobalGhost{f[1], f[2]})
		case "loop":
			if cur == nil {
				return nil, fail(fmt.Errorf("loop outside func"))
			}
			var n int
			label := ""
			if r := strings.TrimSpace(rest); strings.HasPrefix(r, "@") {
				// goto-style loop named by the label of its head: `loop @again`
				label = r[1:]
				n = 900
				for cur.Loops[n] != nil {
					n++
				}
			} else {
				var err error
				n, err = strconv.Atoi(r)
				if err != nil {
					return nil, fail(err)
				}
			}
			curLoop = &LoopSpec{Ordinal: n, Label: label}
			cur.Loops[n] = curLoop
			curCall = nil
		case "invariant":
			if curLoop == nil {
				return nil, fail(fmt.Errorf("invariant outside loop"))
			}
			c, err := mkClause(fmt.Sprintf("inv.%d", curLoop.Ordinal), len(curLoop.Invariants)+1, rest)
			if err != nil {
				return nil, fail(err)
			}
			curLoop.Invariants = append(curLoop.Invariants, c)
		case "decreases":
			if curLoop == nil {
				return nil, fail(fmt.Errorf("decreases outside loop"))
			}
			c, err := mkClause(fmt.Sprintf("dec.%d", curLoop.Ordinal), 1, rest)
			if err != nil {
				return nil, fail(err)
			}
			curLoop.Decreases = &c
		case "ghost":
			// ghost name type = init
			if cur == nil {
				return nil, fail(fmt.Errorf("ghost outside func"))
			}
			parts := strings.SplitN(rest, "=", 2)
			f := strings.Fields(parts[0])
			if len(f) != 2 || len(parts) != 2 {
				return nil, fail(fmt.Errorf("ghost: want `ghost name type = init`"))
			}
			e, err := ParseSpecExpr(strings.TrimSpace(parts[1]))
			if err != nil {
				return nil, fail(err)
			}
			cur.Ghosts = append(cur.Ghosts, GhostVar{Name: f[0], Type: f[1], Init: e})
		case "call", "store":
			if cur == nil {
				return nil, fail(fmt.Errorf("call outside func"))
			}
			curLoop = nil
			pat := strings.TrimSpace(rest)
			on, with := "", ""
			if i := strings.Index(pat, " with "); i >= 0 {
				with = strings.TrimSpace(pat[i+6:])
				pat = strings.TrimSpace(pat[:i])
			}
			if i := strings.Index(pat, " on "); i >= 0 {
				on = strings.TrimSpace(pat[i+4:])
				pat = strings.TrimSpace(pat[:i])
			}
			lbl := "call." + sanitizeLabel(pat)
			if kw == "store" {
				lbl = "store." + sanitizeLabel(pat)
			}
			if on != "" {
				lbl += "@" + sanitizeLabel(on)
			}
			if with != "" {
				lbl += "@with." + sanitizeLabel(with)
			}
			// disambiguate duplicates
			base := lbl
			for k := 2; ; k++ {
				dup := false
				for _, c := range cur.Calls {
					if c.Label == lbl {
						dup = true
					}
				}
				if !dup {
					break
				}
				lbl = fmt.Sprintf("%s~%d", base, k)
			}
			curCall = &CallRule{Label: lbl, Pattern: pat, On: on, With: with, IsStore: kw == "store"}
			cur.Calls = append(cur.Calls, curCall)
		case "set":
			if curCall == nil {
				return nil, fail(fmt.Errorf("set outside call rule"))
			}
			parts := strings.SplitN(rest, "=", 2)
			if len(parts) != 2 {
				return nil, fail(fmt.Errorf("set: want `set ghost = expr`"))
			}
			// careful with '==' inside rhs: SplitN on first '=' is fine as lhs is an identifier
			e, err := ParseSpecExpr(strings.TrimSpace(parts[1]))
			if err != nil {
				return nil, fail(err)
			}
			curCall.Sets = append(curCall.Sets, GhostSet{Var: strings.TrimSpace(parts[0]), E: e, Src: rest})
		case "frame":
			if curCall == nil {
				return nil, fail(fmt.Errorf("frame outside call rule"))
			}
			if strings.TrimSpace(rest) != "nothing" {
				return nil, fail(fmt.Errorf("only `frame nothing` is supported"))
			}
			curCall.FrameNothing = true
		case "assume":
			if curCall == nil {
				return nil, fail(fmt.Errorf("assume outside call rule"))
			}
			c, err := mkClause(curCall.Label+".assume", len(curCall.Assume)+1, rest)
			if err != nil {
				return nil, fail(err)
			}
			curCall.Assume = append(curCall.Assume, c)
		case "assigns", "trusted_assigns":
			if cur == nil {
				return nil, fail(fmt.Errorf("assigns outside func"))
			}
			cur.HasAssigns = true
			if kw == "trusted_assigns" {
				cur.TrustedFrame = true
			}
			for _, part := range splitTop(rest, ',') {
				part = strings.TrimSpace(part)
				switch {
				case part == "nothing":
				case part == "everything" || part == "*":
					cur.Assigns = append(cur.Assigns, AssignTarget{Src: part, All: true})
				case part == "elements":
					// every slice element / pointer cell (anything that is not a struct field or a map)
					cur.Assigns = append(cur.Assigns, AssignTarget{Src: part, Elems: true})
				case strings.Contains(part, "::"):
					cur.Assigns = append(cur.Assigns, AssignTarget{Src: part, Map: part})
				default:
					p2 := strings.ReplaceAll(part, "[*]", "[$all]")
					e, err := ParseSpecExpr(p2)
					if err != nil {
						return nil, fail(err)
					}
					cur.Assigns = append(cur.Assigns, AssignTarget{Src: part, Expr: e})
				}
			}
		case "trusted":
			if cur != nil {
				cur.Trusted = true
				if rest != "" {
					cur.Notes = append(cur.Notes, "trusted: "+rest)
				}
			}
		case "extern":
			if cur != nil {
				cur.Extern = true
				cur.Trusted = true
				if rest != "" {
					cur.Notes = append(cur.Notes, "extern: "+rest)
				}
			}
		case "nopanic":
			if cur != nil {
				cur.NoPanic = true
			}
		case "stable":
			if cur == nil {
				return nil, fail(fmt.Errorf("stable outside func"))
			}
			cur.Stable = append(cur.Stable, strings.Fields(strings.ReplaceAll(rest, ",", " "))...)
		case "abstract_mod":
			if cur != nil {
				cur.AbstractMod = true
			}
		case "index_fn":
			if cur != nil {
				cur.IndexFn = true
			}
		case "nooverflow":
			if cur != nil {
				cur.NoOverflow = true
			}
		case "on_error":
			// on_error unchanged(a, b.c)
			if cur == nil {
				return nil, fail(fmt.Errorf("on_error outside func"))
			}
			r := strings.TrimSpace(rest)
			r = strings.TrimPrefix(r, "unchanged")
			r = strings.TrimSpace(r)
			r = strings.TrimSuffix(strings.TrimPrefix(r, "("), ")")
			for _, part := range splitTop(r, ',') {
				e, err := ParseSpecExpr(strings.TrimSpace(part))
				if err != nil {
					return nil, fail(err)
				}
				cur.OnErrorUnchanged = append(cur.OnErrorUnchanged, e)
			}
		case "carries":
			// carries SRC -> DST [except f(reason), g(reason)] [shared h(reason)]
			if cur == nil {
				return nil, fail(fmt.Errorf("carries outside func"))
			}
			cs := &CarrySpec{Except: map[string]string{}, Shared: map[string]string{}, Src0: rest}
			body := rest
			exc, shr := "", ""
			if i := strings.Index(body, " shared "); i >= 0 {
				shr = body[i+8:]
				body = body[:i]
			}
			if i := strings.Index(body, " except "); i >= 0 {
				exc = body[i+8:]
				body = body[:i]
			}
			parts := strings.Split(body, "->")
			if len(parts) != 2 {
				return nil, fail(fmt.Errorf("carries: want `carries src -> dst`"))
			}
			var err error
			if cs.Src, err = ParseSpecExpr(strings.TrimSpace(parts[0])); err != nil {
				return nil, fail(err)
			}
			if cs.Dst, err = ParseSpecExpr(strings.TrimSpace(parts[1])); err != nil {
				return nil, fail(err)
			}
			for _, it := range splitTop(exc, ',') {
				it = strings.TrimSpace(it)
				name, reason := it, ""
				if j := strings.Index(it, "("); j > 0 {
					name, reason = it[:j], strings.TrimSuffix(it[j+1:], ")")
				}
				cs.Except[strings.TrimSpace(name)] = reason
			}
			for _, it := range splitTop(shr, ',') {
				it = strings.TrimSpace(it)
				name, reason := it, ""
				if j := strings.Index(it, "("); j > 0 {
					name, reason = it[:j], strings.TrimSuffix(it[j+1:], ")")
				}
				cs.Shared[strings.TrimSpace(name)] = reason
			}
			cur.Carries = append(cur.Carries, cs)
		case "reads_all", "writes_all", "writes_all_paths":
			if cur == nil {
				return nil, fail(fmt.Errorf("%s outside func", kw))
			}
			fc := &FieldCoverSpec{Writes: kw != "reads_all", AllPaths: kw == "writes_all_paths", Except: map[string]string{}}
			body := rest
			if i := strings.Index(body, " except "); i >= 0 {
				for _, it := range splitTop(body[i+8:], ',') {
					it = strings.TrimSpace(it)
					name, reason := it, ""
					if j := strings.Index(it, "("); j > 0 {
						name, reason = it[:j], strings.TrimSuffix(it[j+1:], ")")
					}
					fc.Except[strings.TrimSpace(name)] = reason
				}
				body = body[:i]
			}
			fc.Target = strings.TrimSpace(body)
			cur.FieldCover = append(cur.FieldCover, fc)
		case "unroll":
			if cur != nil {
				cur.Unfold, _ = strconv.Atoi(strings.TrimSpace(rest))
			}
		case "opaque":
			if cur != nil {
				cur.Opaque = append(cur.Opaque, strings.Fields(rest)...)
			}
		case "bounded":
			if cur != nil {
				cur.Bounded = rest
			}
		case "note":
			if cur != nil {
				cur.Notes = append(cur.Notes, rest)
			}
		default:
			return nil, fail(fmt.Errorf("unknown contract keyword %q", kw))
		}
	}
	return sf, nil
}

func sanitizeLabel(s string) string {
	var b strings.Builder
	for _, r := range s {
		if unicode.IsLetter(r) || unicode.IsDigit(r) || r == '.' || r == '_' {
			b.WriteRune(r)
		}
	}
	return b.String()
}

func splitKw(s string) (string, string) {
	i := strings.IndexAny(s, " \t")
	if i < 0 {
		return s, ""
	}
	return s[:i], strings.TrimSpace(s[i+1:])
}

// splitTop splits on sep at bracket depth 0.
func splitTop(s string, sep byte) []string {
	var out []string
	depth := 0
	last := 0
	for i := 0; i < len(s); i++ {
		switch s[i] {
		case '(', '[', '{':
			depth++
		case ')', ']', '}':
			depth--
		default:
			if s[i] == sep && depth == 0 {
				out = append(out, s[last:i])
				last = i + 1
			}
		}
	}
	if strings.TrimSpace(s[last:]) != "" {
		out = append(out, s[last:])
	}
	return out
}

// parseSig parses  name(a T, b U) R
func parseSig(s string) (name string, params []QVar, ret string, err error) {
	s = strings.TrimSpace(s)
	i := strings.Index(s, "(")
	j := strings.LastIndex(s, ")")
	if i < 0 || j < i {
		return "", nil, "", fmt.Errorf("bad signature %q", s)
	}
	name = strings.TrimSpace(s[:i])
	for _, p := range splitTop(s[i+1:j], ',') {
		f := strings.Fields(p)
		if len(f) != 2 {
			return "", nil, "", fmt.Errorf("bad parameter %q", p)
		}
		params = append(params, QVar{f[0], f[1]})
	}
	ret = strings.TrimSpace(s[j+1:])
	return
}
