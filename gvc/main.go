package main

import (
	"encoding/json"
	"flag"
	"fmt"
	"os"
	"path/filepath"
	"runtime"
	"sort"
	"strconv"
	"strings"
	"time"

	"golang.org/x/tools/go/ssa"
)

const verifRoot = "/verif"

func newGen(w *World, fn *ssa.Function, spec *FuncSpec, key string, bv bool) *Gen {
	return &Gen{W: w, fn: fn, spec: spec, key: key, bv: bv, declared: map[string]bool{}, structSorts: map[string]*Sort{}, heapSorts: map[string]string{},
		vals: map[ssa.Value]Val{}, tuples: map[ssa.Value][]Val{}, addrs: map[ssa.Value]*Addr{}, exit: map[*ssa.BasicBlock]*State{}, params: map[string]Val{},
		havocCalls: map[string]int{}, instCount: map[string]int{}, strLits: map[string]string{}, typeIDs: map[string]int{}, usedSpecs: map[string]bool{},
		axiomsAdded: map[string]bool{}, loopHeadState: map[*ssa.BasicBlock]*State{}, rangeVisited: map[*ssa.Range]string{}}
}

// genFunc generates all obligations of one function under contract.
func genFunc(w *World, fs *FuncSpec) (*Gen, error) {
	fn := w.findFunction(fs)
	key := fs.Pkg + "::" + normName(fs.Name)
	if fn == nil {
		return nil, fmt.Errorf("contract drift: function %s not found in package %s (contract at %s:%d)", fs.Name, fs.Pkg, strings.TrimPrefix(fs.File, repoRoot+"/"), fs.Line)
	}
	g := newGen(w, fn, fs, key, fs.Mode == "bv")
	g.abstractMod = fs.AbstractMod
	g.indexFn = fs.IndexFn && fs.Mode != "bv"
	for _, sname := range fs.Stable {
		g.stableSuffix = append(g.stableSuffix, strings.ReplaceAll(sname, ".", "_"))
	}
	g.stableSeen = map[string]bool{}
	func() {
		defer func() {
			if r := recover(); r != nil {
				buf := make([]byte, 4096)
				n := runtime.Stack(buf, false)
				g.errs = append(g.errs, fmt.Sprintf("internal error: %v\n%s", r, buf[:n]))
			}
		}()
		g.addAxioms()
		g.run()
	}()
	delete(deferStacks, g)
	for _, k := range g.stableSuffix {
		if !g.stableSeen[k] {
			g.errs = append(g.errs, fmt.Sprintf("contract drift: stable field %s of %s is never read in the function", k, fs.Name))
		} else {
			g.note(fmt.Sprintf("ASSUMED stable in %s: no callee writes %s (configuration set at construction)", g.key, k))
		}
	}
	// unmatched call rules are vacuous
	for _, r := range fs.Calls {
		if r.Matched == 0 && r.Never {
			// the passing state of a prohibition: keep its clause present (and trivially true) so that a claim on it has
			// an instance whether or not the forbidden call exists
			for _, cl := range r.Requires {
				g.oblige(cl.Label, "B", fmt.Sprintf("no call/store matching %q in the function: %s", r.Pattern, cl.Src), "true", "true", false)
			}
			continue
		}
		if r.Matched == 0 {
			g.errs = append(g.errs, fmt.Sprintf("contract drift: call rule %q of %s matches no call/store in the function", r.Pattern, fs.Name))
		}
	}
	for ord := range fs.Loops {
		found := false
		for _, li := range g.loops {
			if li.ordinal == ord {
				found = true
			}
		}
		if !found {
			g.errs = append(g.errs, fmt.Sprintf("contract drift: loop %d of %s does not exist", ord, fs.Name))
		}
	}
	return g, nil
}

func (g *Gen) addAxioms() {
	for _, ax := range g.W.axioms {
		if _, loaded := g.W.spkgs[ax.pkg]; !loaded {
			continue // axioms of packages that are not loaded with syntax cannot be relevant
		}
		pkg := g.W.typesPkgs[ax.pkg]
		env := g.specEnv(&State{reach: "true", locals: nil, heap: map[string]string{}, ghosts: map[string]Val{}, alloc: "0", pend: map[string]int{}}, nil)
		env.calleePkg = pkg
		env.triggers = ax.c.Triggers
		env.noRangeGuards = true
		g.axioms = append(g.axioms, env.evalBool(ax.c.E))
	}
}

func genLemma(w *World, l *Lemma) *Gen {
	g := newGen(w, nil, nil, l.Pkg+"::lemma."+l.Name, l.Mode == "bv")
	st := &State{reach: "true", locals: nil, heap: map[string]string{}, ghosts: map[string]Val{}, alloc: "alloc0"}
	g.declare("alloc0", "Int")
	g.entry = st
	func() {
		defer func() {
			if r := recover(); r != nil {
				g.errs = append(g.errs, fmt.Sprintf("internal error: %v", r))
			}
		}()
		g.addAxioms()
		env := g.specEnv(st, st)
		env.calleePkg = w.typesPkgs[l.Pkg]
		if env.calleePkg == nil {
			env.calleePkg = w.lemmaPkg
		}
		for _, p := range l.Params {
			s, t := g.specType(p.Type, env.calleePkg)
			n := "lp_" + p.Name
			g.declare(n, s.SMT())
			v := Val{T: n, S: s, G: t}
			g.assume("true", g.wfFact(v, nil))
			env.vars[p.Name] = v
			g.modelVars = append(g.modelVars, ModelVar{Name: p.Name, Term: n, Sort: s.SMT()})
		}
		for _, c := range l.Requires {
			g.assume("true", env.evalBool(c.E))
		}
		for _, c := range l.Ensures {
			goal := env.evalBool(c.E)
			g.oblige(c.Label, "E", "lemma "+l.Name+": "+c.Src, "true", goal, false)
			if ex, ok := w.kfExcept[g.key+"#"+c.Label]; ok {
				// known finding with a recorded failing class: the lemma must still hold outside that class
				g.oblige(c.Label+".outside", "E", "lemma "+l.Name+" holds outside the recorded known-finding class ("+ex.String()+"): "+c.Src, "true", sOr(env.evalBool(ex), goal), false)
			}
		}
		g.cover = []string{"true"}
	}()
	return g
}

// ---------------------------------------------------------------- check command

type ClauseStatus struct {
	Key       string `json:"key"`
	Class     string `json:"class"`
	Desc      string `json:"desc"`
	Instances int    `json:"instances"`
	Status    string `json:"status"`
	Solver    string `json:"solver"`
	Ms        int64  `json:"ms"`
	MaxMs     int64  `json:"max_instance_ms"`
	Implicit  bool   `json:"implicit,omitempty"`
	Pos       string `json:"pos,omitempty"`
}

type KnownFinding struct {
	Property   string `json:"property"`
	Obligation string `json:"obligation"`
	What       string `json:"what"`
	Witness    string `json:"witness,omitempty"`
	Except     string `json:"except,omitempty"` // spec expression over the function's inputs/ghosts: the recorded failing class
	Fixed      string `json:"fixed,omitempty"`
}

func loadKnownFindings() []KnownFinding {
	var kf struct {
		Findings []KnownFinding `json:"findings"`
	}
	data, err := os.ReadFile(filepath.Join(verifRoot, "known_findings.json"))
	if err != nil {
		return nil
	}
	if err := json.Unmarshal(data, &kf); err != nil {
		fmt.Fprintln(os.Stderr, "known_findings.json:", err)
		os.Exit(2)
	}
	return kf.Findings
}

func loadClaims(prop string) (map[string]bool, bool) {
	data, err := os.ReadFile(filepath.Join(verifRoot, "claims", prop+".json"))
	if err != nil {
		return nil, false
	}
	var c struct {
		Claimed []string `json:"claimed"`
	}
	if err := json.Unmarshal(data, &c); err != nil {
		fmt.Fprintln(os.Stderr, "claims:", err)
		os.Exit(2)
	}
	m := map[string]bool{}
	for _, k := range c.Claimed {
		m[k] = true
	}
	return m, true
}

func hasProp(ps []string, p string) bool {
	for _, x := range ps {
		if x == p {
			return true
		}
	}
	return false
}

func main() {
	if len(os.Args) < 2 {
		fmt.Fprintln(os.Stderr, "usage: gvc check|list|claim -prop Cxx [-tier quick|thorough]")
		os.Exit(2)
	}
	cmd := os.Args[1]
	fs := flag.NewFlagSet(cmd, flag.ExitOnError)
	prop := fs.String("prop", "", "property id")
	tier := fs.String("tier", "quick", "quick|thorough")
	seedF := fs.Int("seed", 0, "seed")
	only := fs.String("func", "", "restrict to functions whose name contains this")
	dump := fs.String("dump", "", "dump SMT of obligations whose key contains this into /tmp/gvc-dump")
	verbose := fs.Bool("v", false, "verbose")
	file := fs.String("file", "", "replay file")
	fs.Parse(os.Args[2:])
	seed := *seedF
	if s := os.Getenv("VERIF_SEED"); s != "" {
		if n, err := strconv.Atoi(s); err == nil {
			seed = n
		}
	}
	if t := os.Getenv("VERIF_TIER"); t != "" && cmd == "check" {
		*tier = t
	}
	switch cmd {
	case "check", "claim", "list":
		os.Exit(runCheck(cmd, *prop, *tier, seed, *only, *dump, *verbose))
	case "replay":
		os.Exit(runReplay(*file))
	case "selftest":
		os.Exit(runSelftest(*prop))
	default:
		fmt.Fprintln(os.Stderr, "unknown command", cmd)
		os.Exit(2)
	}
}

func runCheck(cmd, prop, tier string, seed int, only, dump string, verbose bool) int {
	t0 := time.Now()
	if prop == "" {
		fmt.Fprintln(os.Stderr, "-prop required")
		return 2
	}
	w, err := loadWorld(prop, nil)
	if err != nil {
		fmt.Println("gvc: load failed:", err)
		return toolFailure(prop, tier, seed, t0, err.Error())
	}
	kfs := loadKnownFindings()
	for _, k := range kfs {
		if k.Fixed == "" {
			w.refuted[k.Obligation] = true
			if k.Except != "" {
				e, err := ParseSpecExpr(k.Except)
				if err != nil {
					fmt.Println("gvc: known_findings.json: bad except expression:", err)
					return 2
				}
				w.kfExcept[k.Obligation] = e
			}
		}
	}
	tLoad := time.Since(t0)
	var gens []*Gen
	var drift []string
	var trusted []*FuncSpec
	for _, s := range w.allSpecs {
		if !hasProp(s.Props, prop) {
			continue
		}
		if only != "" && !strings.Contains(s.Name, only) {
			continue
		}
		if s.Trusted {
			trusted = append(trusted, s)
			continue
		}
		g, err := genFunc(w, s)
		if err != nil {
			drift = append(drift, err.Error())
			continue
		}
		gens = append(gens, g)
	}
	for _, l := range w.lemmas {
		if !hasProp(l.Props, prop) {
			continue
		}
		if only != "" && !strings.Contains(l.Name, only) {
			continue
		}
		gens = append(gens, genLemma(w, l))
	}
	tGen := time.Since(t0) - tLoad
	var jobs []*job
	var skipped []*Obligation
	for _, g := range gens {
		for _, o := range g.obls {
			jobs = append(jobs, &job{g: g, o: o, idx: len(jobs)})
		}
		// vacuity cover: some return reachable under the preconditions
		if len(g.cover) > 0 {
			o := &Obligation{Func: g.key, Clause: "$cover", Class: "V", Desc: "vacuity probe: a return is reachable under the preconditions", NAssume: len(g.assumes), Guard: "true", Goal: sNot(sOr(g.cover...))}
			jobs = append(jobs, &job{g: g, o: o, idx: len(jobs)})
		}
	}
	timeout := 20
	if tier == "thorough" {
		timeout = 60
	}
	if cmd == "check" && tier != "thorough" {
		// quick tier: only claimed clauses and known findings are attempted; other generated
		// obligations (mostly implicit safety obligations without a precondition) are listed, not solved
		if claims, ok := loadClaims(prop); ok {
			kf := map[string]bool{}
			for _, k := range kfs {
				kf[k.Obligation] = true
			}
			var keep []*job
			for _, j := range jobs {
				k := j.o.Func + "#" + j.o.Clause
				if claims[k] || kf[k] || kf[strings.TrimSuffix(k, ".outside")] || j.o.Clause == "$cover" {
					j.idx = len(keep)
					keep = append(keep, j)
				} else {
					skipped = append(skipped, j.o)
				}
			}
			jobs = keep
		}
	}
	if cmd == "list" {
		for _, g := range gens {
			fmt.Printf("%s: %d obligations, %d errors\n", g.key, len(g.obls), len(g.errs))
			for _, e := range g.errs {
				fmt.Println("   ERROR:", e)
			}
			for _, o := range g.obls {
				fmt.Printf("   %s #%d [%s] %s  @%s\n", o.Clause, o.Inst, o.Class, o.Desc, o.Pos)
			}
		}
		return 0
	}
	if dump != "" {
		os.MkdirAll("/tmp/gvc-dump", 0o755)
		for _, j := range jobs {
			k := j.o.Func + "#" + j.o.Clause
			if strings.Contains(k, dump) {
				fn := fmt.Sprintf("/tmp/gvc-dump/%s.%d.smt2", mangle(k), j.o.Inst)
				os.WriteFile(fn, []byte(j.g.queryFor(j.o).Text(true)), 0o644)
			}
		}
	}
	solveAll(jobs, timeout, runtime.NumCPU(), seed, tier == "thorough")
	tSolve := time.Since(t0) - tLoad - tGen

	// aggregate per clause
	clauses := map[string]*clauseAgg{}
	var order []string
	var solverMs int64
	bySolver := map[string]int{}
	vacuous := []string{}
	for _, j := range jobs {
		r := j.res
		solverMs += r.Ms
		if j.o.Clause == "$cover" {
			// expected: sat (return reachable) => Status refuted
			if r.Status == "discharged" {
				vacuous = append(vacuous, j.o.Func)
			}
			continue
		}
		k := j.o.Func + "#" + j.o.Clause
		a := clauses[k]
		if a == nil {
			a = &clauseAgg{cs: ClauseStatus{Key: k, Class: j.o.Class, Desc: j.o.Desc, Status: "discharged", Implicit: j.o.Implicit, Pos: j.o.Pos}}
			clauses[k] = a
			order = append(order, k)
		}
		a.cs.Instances++
		a.cs.Ms += r.Ms
		if r.Ms > a.cs.MaxMs {
			a.cs.MaxMs = r.Ms
		}
		a.res = append(a.res, r)
		if r.Status == "discharged" {
			bySolver[r.Solver]++
			if a.cs.Solver == "" {
				a.cs.Solver = r.Solver
			}
		}
		if r.Status == "refuted" || (r.Status == "undecided" && a.cs.Status != "refuted") {
			if a.cs.Status != "refuted" || r.Status == "refuted" {
				a.cs.Status = r.Status
				a.worst = r
				a.cs.Solver = r.Solver
				a.cs.Pos = r.O.Pos
				a.cs.Desc = r.O.Desc
			}
		}
	}
	// generation errors
	var genErrs []string
	for _, g := range gens {
		seen := map[string]bool{}
		for _, e := range g.errs {
			e = truncate(e, 400)
			if seen[e] {
				continue
			}
			seen[e] = true
			genErrs = append(genErrs, g.key+": "+e)
		}
	}
	genErrs = append(genErrs, drift...)
	for _, v := range vacuous {
		genErrs = append(genErrs, v+": VACUOUS contract (no return reachable under the preconditions)")
	}

	if cmd == "claim" {
		var claimed []string
		for _, k := range order {
			// claim only what discharges well inside the quick budget (stability margin)
			if clauses[k].cs.Status == "discharged" && clauses[k].cs.MaxMs < 3000 {
				claimed = append(claimed, k)
			} else if clauses[k].cs.Status == "discharged" {
				clauses[k].cs.Status = fmt.Sprintf("discharged but slow (%d ms): not claimed", clauses[k].cs.MaxMs)
			}
		}
		sort.Strings(claimed)
		os.MkdirAll(filepath.Join(verifRoot, "claims"), 0o755)
		data, _ := json.MarshalIndent(map[string]any{"property": prop, "claimed": claimed}, "", " ")
		if only == "" {
			os.WriteFile(filepath.Join(verifRoot, "claims", prop+".json"), data, 0o644)
			fmt.Printf("claimed %d of %d clauses for %s\n", len(claimed), len(order), prop)
		} else {
			fmt.Printf("(dry run, -func given) would claim %d of %d clauses for %s\n", len(claimed), len(order), prop)
		}
		shown := 0
		for _, k := range order {
			if clauses[k].cs.Status != "discharged" {
				shown++
				if shown > 30 {
					continue
				}
				fmt.Printf("  unclaimed: %s [%s] %s %s\n", k, clauses[k].cs.Status, clauses[k].cs.Desc, clauses[k].cs.Pos)
				if verbose && clauses[k].worst != nil && clauses[k].worst.Model != nil {
					fmt.Printf("      model: %v\n", clauses[k].worst.Model)
				}
			}
		}
		for i, e := range genErrs {
			if i >= 15 {
				fmt.Printf("  ... %d more errors\n", len(genErrs)-i)
				break
			}
			fmt.Println("  ERROR:", truncate(strings.ReplaceAll(e, "\n", " "), 300))
		}
		return 0
	}

	seenSk := map[string]bool{}
	for _, o := range skipped {
		k := o.Func + "#" + o.Clause
		if !seenSk[k] {
			seenSk[k] = true
			order = append(order, k)
			clauses[k] = &clauseAgg{cs: ClauseStatus{Key: k, Class: o.Class, Desc: o.Desc, Status: "not attempted (quick tier)", Implicit: o.Implicit, Pos: o.Pos}}
		}
		clauses[k].cs.Instances++
	}
	currentGens = gens
	claims, haveClaims := loadClaims(prop)
	if !haveClaims {
		fmt.Println("gvc: no claims file for", prop)
		return toolFailure(prop, tier, seed, t0, "no claims file")
	}
	return report(w, prop, tier, seed, t0, gens, trusted, clausesList(order, clauses), func(k string) *Result {
		if a := clauses[k]; a != nil {
			return a.worst
		}
		return nil
	}, claims, kfs, genErrs, solverMs, bySolver, tLoad, tGen, tSolve, verbose, only != "")
}

type clauseAgg struct {
	cs    ClauseStatus
	res   []*Result
	worst *Result
}

func clausesList(order []string, m map[string]*clauseAgg) []ClauseStatus {
	var out []ClauseStatus
	for _, k := range order {
		out = append(out, m[k].cs)
	}
	return out
}
